"""SELF-REFERENCE — an object that stores a pointer / reference / capturing closure to itself (or to one of its own members) inside a member
must not be copied or moved memberwise: the copy's member still refers to the source object.

Detected from the typed AST: a field whose default member initialiser or constructor initialiser
  (a) contains a lambda that captures `this` / `*this` (explicitly or through a reference capture initialised from *this), or
  (b) takes the address of a member of `this` (`&state`) or passes `this` / `*this` itself as an argument
is self-referring. For such a record every copy/move constructor that exists (not deleted) must be user-provided (not implicit, not
`= default`), and a defaulted assignment is accepted only when the self-referring field's own class has a user-provided assignment operator.
"""


def _self_referring(db, f, expr):
    """reason string when the initialiser expression stores a reference to the object under construction"""
    nodes = list(f.walk(expr))
    lambdas = [n for n in nodes if n['k'] == 'LambdaExpr']
    for lam in lambdas:
        inner = list(f.walk(lam))
        if any(x['k'] == 'CXXThisExpr' for x in inner):
            return 'a closure capturing *this (`%s`)' % (lam.get('txt') or '')[:60]
        lf = db.fn(lam.get('lambda'), required=False) if lam.get('lambda') else None
        if lf is not None and any(x['k'] == 'CXXThisExpr' for x in lf.walk()):
            return 'a closure using this (`%s`)' % (lam.get('txt') or '')[:60]
    for n in nodes:
        if n['k'] == 'UnaryOperator' and n.get('op') == '&':
            sub = f.strip(f.children(n)[0])
            if sub is not None and sub['k'] == 'MemberExpr' and sub.get('mk') == 'field' and any(x['k'] == 'CXXThisExpr' for x in f.walk(sub)):
                return 'the address of its own member `%s`' % sub.get('member')
        if n['k'] in ('CallExpr', 'CXXConstructExpr', 'CXXTemporaryObjectExpr', 'CXXMemberCallExpr'):
            for a in n.get('args', []):
                x = f.strip(f.stmts[a])
                if x is None:
                    continue
                if x['k'] == 'CXXThisExpr':
                    return '`this` passed to `%s`' % (n.get('callee') or n.get('cls') or '')[:50]
                if x['k'] == 'UnaryOperator' and x.get('op') == '*' and f.strip(f.children(x)[0])['k'] == 'CXXThisExpr' and not (n.get('copyctor') or n.get('movector')):
                    return '`*this` passed to `%s`' % (n.get('callee') or n.get('cls') or '')[:50]
    return None


def selfref_rule(db, rule, prefixes, exempt=None):
    """reports one instance per record that has a self-referring field"""
    exempt = exempt or {}
    n = 0
    for key, rec in sorted(db.records.items()):
        if not key.startswith(tuple(prefixes)) or '<' in key or '(lambda' in key or '(anonymous' in key:
            continue
        fields = {}
        for fld in rec.get('fields', []):
            initfn = db.fn(key + '::' + fld['name'] + '::<init>', required=False)
            if initfn is not None and initfn.body >= 0:
                why = _self_referring(db, initfn, initfn.stmts[initfn.body])
                if why:
                    fields[fld['name']] = (why, '%s:%d' % (rec['file'], fld.get('line', rec['line'])), fld)
        ctors = [g for g in db.functions if g.cls == key and g.rec.get('ctor') and not g.rec.get('dependent')] if hasattr(db.functions[0], 'cls') else []
        for g in ctors:
            if g.rec.get('defaulted'):
                continue
            for i in g.rec.get('inits', []):
                if 'field' in i and 'expr' in i and i.get('written'):
                    why = _self_referring(db, g, g.stmts[i['expr']])
                    if why and i['field'] not in fields:
                        fld = next((x for x in rec['fields'] if x['name'] == i['field']), {})
                        fields[i['field']] = (why, g.loc(g.stmts[i['expr']]), fld)
        if not fields:
            continue
        n += 1
        inst = key.split('::')[-1]
        if key in exempt:
            rule.ok(inst, 'self-referring member(s) %s; %s' % (sorted(fields), exempt[key]), '%s:%d' % (rec['file'], rec['line']), nontrivial=False)
            continue
        problems = []
        defs = {g.rec.get('mn'): g for g in db.functions if g.cls == key}
        for m in rec.get('methods', []):
            if m.get('deleted'):
                continue
            memberwise = m.get('implicit') or m.get('defaulted') or (defs.get(m.get('mn')) is not None and defs[m['mn']].rec.get('defaulted'))
            if not memberwise:
                continue
            if m.get('ctor') and (m.get('copy') or m.get('move')):
                problems.append('%s constructor is memberwise' % ('copy' if m.get('copy') else 'move'))
            elif m.get('copyassign') or m.get('moveassign'):
                for fname, (why, where, fld) in fields.items():
                    ft = (fld.get('type') or '').replace('const ', '').strip()
                    frec = db.records.get(ft) or db.records.get('::'.join(key.split('::')[:-1]) + '::' + ft)
                    user_assign = frec is not None and any(x['name'] == 'operator=' and not x.get('implicit') and not x.get('defaulted') and not x.get('deleted') for x in frec.get('methods', []))
                    if not user_assign:
                        problems.append('%s assignment is memberwise and `%s` (%s) has no assignment of its own that keeps the binding' % ('copy' if m.get('copyassign') else 'move', fname, ft[:40]))
        desc = '; '.join('`%s` holds %s' % (k, v[0]) for k, v in sorted(fields.items()))
        if problems:
            rule.violation(inst, sorted(fields.values(), key=lambda v: v[1])[0][1], '%s, but the %s: the new object keeps referring to the one it was made from' % (desc, '; '.join(sorted(set(problems)))))
        else:
            rule.ok(inst, '%s; no memberwise copy or move exists' % desc, '%s:%d' % (rec['file'], rec['line']))
    return n
