// Residual of the same kind that fix.diff does NOT address (informational, prints what happens):
// ResetAliases reserves only names that FORMAL definitions mention; a dangling text reference is still captured.
#include "ccl/semantic/RSForm.h"
#include <iostream>
using ccl::semantic::RSForm;
using ccl::semantic::CstType;
int main() {
  RSForm s{};
  s.Emplace(CstType::base);                        // X1
  const auto x2 = s.Emplace(CstType::base);        // X2
  const auto x3 = s.Emplace(CstType::base);        // X3
  s.SetTermFor(x3, "things");
  const auto d1 = s.Emplace(CstType::term, "X1\xE2\x88\xAAX1");
  s.SetTermFor(d1, "all @{X2|sing,nomn}");
  s.SetConventionFor(d1, "see X2");
  s.Erase(x2);
  std::cout << "before: " << s.GetText(d1).term.Text().Raw() << " -> " << s.GetText(d1).term.Nominal() << "\n";
  s.ResetAliases();                                // X3 is renumbered to X2
  std::cout << "after : " << s.GetText(d1).term.Text().Raw() << " -> " << s.GetText(d1).term.Nominal() << "\n";
  return 0;
}
