// C04 finding 3 (arguable: the call ends after 2^k steps): type check of nested recursive definitions visits the step
// of every definition at least twice (first with the initial typification of the variable, then in the deduction loop),
// so k nested definitions cost 2^k visits of the innermost one.
//   R{v1:=X1 | R{v2:=v1 | ... R{v40:=v39 | v40} ... }}     (565 bytes, no constituents needed besides X1)
// CheckExpression (pyconcept.check_expression) does not return: 16 levels take about a second, every level doubles it.
// Expected: the call returns (in a time that is not exponential in the size of the input) and reports its verdict.
#include "ccl/api/RSFormJA.h"
#include "ccl/tools/JSON.h"

#include <chrono>
#include <iostream>
#include <string>
#include <sys/wait.h>
#include <unistd.h>

using ccl::api::RSFormJA;
using JSON = nlohmann::ordered_json;

static std::string Nested(const int levels) {
  std::string expr{};
  for (int i = 1; i <= levels; ++i) {
    expr += "R{v" + std::to_string(i) + ":=" + (i == 1 ? std::string("X1") : "v" + std::to_string(i - 1)) + " | ";
  }
  expr += "v" + std::to_string(levels);
  for (int i = 1; i <= levels; ++i) {
    expr += "}";
  }
  return expr;
}

// Same nesting, but every definition starts from the empty set, so its typification is refined by the deduction
static std::string NestedRefined(const int levels) {
  static const std::string EMPTY = "\xE2\x88\x85";
  static const std::string UNION = "\xE2\x88\xAA";
  std::string expr{};
  for (int i = 1; i <= levels; ++i) {
    const auto name = "v" + std::to_string(i);
    expr += "R{" + name + ":=" + EMPTY + " | " + name + UNION;
  }
  expr += "{1}";
  for (int i = 1; i <= levels; ++i) {
    expr += "}";
  }
  return expr;
}

static int Check(const RSFormJA& schema, const int levels, const bool refined) {
  const auto expr = refined ? NestedRefined(levels) : Nested(levels);
  const auto start = std::chrono::steady_clock::now();
  const auto result = JSON::parse(schema.CheckExpression(expr));
  const auto elapsed = std::chrono::duration<double>(std::chrono::steady_clock::now() - start).count();
  const bool success = result.at("parseResult").get<bool>();
  bool critical = false;
  for (const auto& error : result.at("errors")) {
    critical = critical || error.at("isCritical").get<bool>();
  }
  std::cout << "  " << levels << " levels (" << expr.size() << " bytes): " << elapsed << " s, parseResult=" << success
    << " typification=" << result.at("typification") << " criticalErrors=" << critical << std::endl;
  return success != critical ? 0 : 3;
}

int main() {
  const auto pid = fork();
  if (pid == 0) {
    alarm(90);
    int code = 4;
    try {
      const auto schema = RSFormJA::FromJSON(R"({"items":[{"entityUID":1,"cstType":"basic","alias":"X1"}]})");
      code = 0;
      std::cout << "R{v1:=X1 | R{v2:=v1 | ... }}" << std::endl;
      for (const auto levels : { 4, 8, 12, 14, 16, 40 }) {
        code = std::max(code, Check(schema, levels, false));
      }
      std::cout << "R{v1:=0 | v1 U R{v2:=0 | v2 U ... {1}}}   (0 is the empty set)" << std::endl;
      for (const auto levels : { 4, 8, 12, 14, 16, 40 }) {
        code = std::max(code, Check(schema, levels, true));
      }
    } catch (const std::exception& e) {
      std::cout << "    exception: " << e.what() << std::endl;
      code = 4;
    }
    _exit(code);
  }
  int status = 0;
  waitpid(pid, &status, 0);
  const bool ok = WIFEXITED(status) && WEXITSTATUS(status) == 0;
  if (WIFSIGNALED(status)) {
    std::cout << "  killed by signal " << WTERMSIG(status)
      << (WTERMSIG(status) == SIGALRM ? " (the check of 40 levels did not return in time)" : "") << std::endl;
  }
  std::cout << (ok ? "PASS" : "FAIL") << std::endl;
  return ok ? 0 : 1;
}
