// C08 finding 4 (partly by design, see notes): RSAggregator::Merge translates the texts of constituents it inserts with
// rslang::TFFactory::GetTransition, which appends "_ERROR" to every token the MATH lexer classifies as a global identifier
// and that is not a name of the previous version. In a convention (free text) every capitalised Latin word of up to six
// characters is such a token, so ordinary words that mention no constituent at all are rewritten.
#include "ccl/semantic/RSForm.h"
#include "ccl/ops/RSAggregator.h"
#include <iostream>

using namespace ccl;
using namespace ccl::semantic;

static int failures = 0;
static void Expect(const std::string& what, const std::string& got, const std::string& expected) {
  const bool ok = got == expected;
  std::cout << (ok ? "  ok   " : "  BAD  ") << what << ": got [" << got << "] expected [" << expected << "]\n";
  if (!ok) ++failures;
}

int main() {
  RSForm out{}; // new version of schema: X1, X2
  const auto o1 = out.Emplace(CstType::base);
  out.Emplace(CstType::base);

  RSForm prev{}; // previous version: X1 and user-added X2, X3
  const auto p1 = prev.Emplace(CstType::base);
  const auto p2 = prev.Emplace(CstType::base);
  const auto p3 = prev.Emplace(CstType::term, "X2\xE2\x88\xAAX7"); // X7 is a dangling name
  prev.SetConventionFor(p2, "Set of People (ID, SQL) \xD0\xB8\xD0\xB7 X1; Humanity");
  prev.SetConventionFor(p3, "Union of X2 and X7");

  EntityTranslation oldToNew{};
  oldToNew.Insert(p1, o1);
  const auto tr = ops::RSAggregator(out).Merge(prev, oldToNew);
  if (!tr.has_value()) { std::cout << "FAIL (merge refused)\n"; return 1; }
  const auto n2 = tr.value()(p2);
  const auto n3 = tr.value()(p3);
  Expect("alias of copy of X2", out.GetRS(n2).alias, "X3");
  Expect("convention without mentions except X1", out.GetRS(n2).convention, "Set of People (ID, SQL) \xD0\xB8\xD0\xB7 X1; Humanity");
  // names of constituents are still translated, dangling names of constituents are still marked
  Expect("definition of copy of D1", out.GetRS(n3).definition, "X3\xE2\x88\xAAX7_ERROR");
  Expect("convention of copy of D1", out.GetRS(n3).convention, "Union of X3 and X7_ERROR");
  std::cout << (failures == 0 ? "PASS" : "FAIL") << "\n";
  return failures == 0 ? 0 : 1;
}
