// C04 finding 4: before evaluation SyntaxTree::Normalize replaces a call of a term-function by its definition and
// copies the argument for every mention of the parameter. Only nesting of the result is bounded, so nested calls of
// a function that mentions its parameter twice double the tree with every call.
//   schema: X1,  F1:==[a in B(X1)] a U a
//   Interpreter::Evaluate("F1[F1[ ... F1[X1] ... ]]")  with 40 calls (163 bytes): the tree needs 2^40 nodes
//   -> std::bad_alloc escapes from Evaluate (or the process is killed for memory); 18 calls take about a second
// Expected: Evaluate returns normally: a value, or std::nullopt with a critical error in the log.
#include "ccl/api/RSFormJA.h"
#include "ccl/rslang/Interpreter.h"

#include <chrono>
#include <iostream>
#include <string>
#include <sys/resource.h>
#include <sys/wait.h>
#include <unistd.h>

using ccl::api::RSFormJA;
namespace rslang = ccl::rslang;
namespace object = ccl::object;

static int Evaluate(rslang::Interpreter& interpreter, const int calls) {
  std::string expr{};
  for (int i = 0; i < calls; ++i) {
    expr += "F1[";
  }
  expr += "X1";
  for (int i = 0; i < calls; ++i) {
    expr += "]";
  }
  const auto start = std::chrono::steady_clock::now();
  const auto value = interpreter.Evaluate(expr, rslang::Syntax::MATH);
  const auto elapsed = std::chrono::duration<double>(std::chrono::steady_clock::now() - start).count();
  const auto critical = interpreter.Errors().HasCriticalErrors();
  std::cout << "  " << calls << " calls (" << expr.size() << " bytes): " << elapsed << " s, value=" << value.has_value()
    << " criticalErrors=" << critical << std::endl;
  return value.has_value() != critical ? 0 : 3;
}

int main() {
  const auto pid = fork();
  if (pid == 0) {
    rlimit memory{ 512UL << 20U, 512UL << 20U };
    setrlimit(RLIMIT_AS, &memory);
    alarm(300);
    int code = 4;
    try {
      const auto schema = RSFormJA::FromJSON(
        "{\"items\":[{\"entityUID\":1,\"cstType\":\"basic\",\"alias\":\"X1\"},"
        "{\"entityUID\":2,\"cstType\":\"function\",\"alias\":\"F1\",\"definition\":{\"formal\":"
        "\"[a\xE2\x88\x88\xE2\x84\xAC(X1)] a\xE2\x88\xAA" "a\"}}]}"
      );
      const auto& rsLang = schema.data().Core().RSLang();
      rslang::Interpreter interpreter{ rsLang, rsLang.ASTContext(),
        [](const std::string& name) -> std::optional<object::StructuredData> {
          if (name == "X1") {
            return object::Factory::SetV({ 1, 2, 3 });
          }
          return std::nullopt;
        }
      };
      code = 0;
      for (const auto calls : { 2, 8, 12, 14, 40 }) {
        code = std::max(code, Evaluate(interpreter, calls));
      }
    } catch (const std::exception& e) {
      std::cout << "  exception: " << e.what() << std::endl;
      code = 4;
    }
    _exit(code);
  }
  int status = 0;
  waitpid(pid, &status, 0);
  const bool ok = WIFEXITED(status) && WEXITSTATUS(status) == 0;
  if (WIFSIGNALED(status)) {
    std::cout << "  killed by signal " << WTERMSIG(status) << std::endl;
  }
  std::cout << (ok ? "PASS" : "FAIL") << std::endl;
  return ok ? 0 : 1;
}
