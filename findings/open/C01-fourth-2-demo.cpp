// C01-2: the same expression, broken into lines with CR LF, is evaluated in the ASCII syntax and refused
// (unknownSymbol at the carriage return) in the MATH syntax.
//
// build: g++ -std=c++20 -O0 -w -DNDEBUG $(cat <lib>/inc.txt) demo.cpp <lib>/libccl.a -o demo
#include "ccl/rslang/Interpreter.h"

#include <iostream>
#include <unordered_map>

using namespace ccl::rslang;
using ccl::object::StructuredData;
using ccl::object::Factory;

struct Env final : TypeContext {
  std::unordered_map<std::string, ExpressionType> types{};
  std::unordered_map<std::string, StructuredData> values{};

  const ExpressionType* TypeFor(const std::string& name) const final {
    return types.contains(name) ? &types.at(name) : nullptr;
  }
  const FunctionArguments* FunctionArgsFor(const std::string& /*name*/) const final { return nullptr; }
  std::optional<TypeTraits> TraitsFor(const Typification& type) const final {
    if (!type.IsElement()) return std::nullopt;
    if (type == Typification::Integer()) return TraitsIntegral;
    return TraitsNominal;
  }
};

static std::string Show(const std::optional<ExpressionValue>& value, const Interpreter& interpreter) {
  if (!value.has_value()) {
    std::string result{ "no value, errors:" };
    for (const auto& error : interpreter.Errors().All()) {
      char buffer[32];
      snprintf(buffer, sizeof(buffer), " %X@%d", error.eid, static_cast<int>(error.position));
      result += buffer;
    }
    return result;
  }
  if (std::holds_alternative<bool>(value.value())) {
    return std::get<bool>(value.value()) ? "TRUE" : "FALSE";
  }
  return std::get<StructuredData>(value.value()).ToString();
}

int main() {
  Env env{};
  env.types["X1"] = Typification("X1").Bool();
  env.values["X1"] = Factory::SetV({ 1, 2, 3 });
  env.types["D1"] = Typification("X1").Bool();
  env.values["D1"] = Factory::SetV({ 1, 2 });
  Interpreter interpreter{
    env,
    [](const std::string&) -> const SyntaxTree* { return nullptr; },
    [&env](const std::string& name) -> std::optional<StructuredData> {
      return env.values.contains(name) ? std::optional<StructuredData>{ env.values.at(name) } : std::nullopt;
    }
  };

  auto pass = true;
  const auto run = [&](const std::string& title, const std::string& ascii, const std::string& math) {
    const auto inAscii = Show(interpreter.Evaluate(ascii, Syntax::ASCII), interpreter);
    const auto inMath = Show(interpreter.Evaluate(math, Syntax::MATH), interpreter);
    const auto same = inAscii == inMath;
    std::cout << title << "\n  ASCII: " << inAscii << "\n  MATH : " << inMath << "\n  " << (same ? "same" : "DIFFERENT") << std::endl;
    pass = pass && same;
  };

  // the same sequence of tokens and the same layout, only the spelling of the operators differs
  run("line feed",
      "D{x \\in X1 |\n x \\notin D1}",
      "D{x \xE2\x88\x88 X1 |\n x \xE2\x88\x89 D1}");
  run("carriage return + line feed",
      "D{x \\in X1 |\r\n x \\notin D1}",
      "D{x \xE2\x88\x88 X1 |\r\n x \xE2\x88\x89 D1}");
  run("carriage return + line feed, logical",
      "\\A x \\in X1\r\n (x \\in D1 \\or\r\n x \\notin D1)",
      "\xE2\x88\x80x \xE2\x88\x88 X1\r\n (x \xE2\x88\x88 D1 \xE2\x88\xA8\r\n x \xE2\x88\x89 D1)");
  std::cout << (pass ? "PASS" : "FAIL") << std::endl;
  return pass ? 0 : 1;
}
