// C03 finding 3: the type deduction loop of a recursion erases the records of ALL variables whose scope is
// closed, not only its own. After any R{...} the checker forgets that a name was declared before:
//   - re-declaring the name gives no localDoubleDeclare warning (it does without the recursion in between);
//   - using the name is reported as localUndeclared instead of localOutOfScope.
#include "ccl/rslang/Auditor.h"

#include <iostream>
#include <string>
#include <unordered_map>

using namespace ccl::rslang;

struct Context final : TypeContext {
  std::unordered_map<std::string, ExpressionType> types{};
  const ExpressionType* TypeFor(const std::string& name) const final {
    const auto it = types.find(name);
    return it == types.end() ? nullptr : &it->second;
  }
  const FunctionArguments* FunctionArgsFor(const std::string&) const final { return nullptr; }
  std::optional<TypeTraits> TraitsFor(const Typification& type) const final {
    if (type == Typification::Integer()) {
      return TraitsIntegral;
    } else {
      return TraitsNominal;
    }
  }
};

static int failures = 0;

static std::string Codes(const Auditor& auditor) {
  std::string result{};
  for (const auto& error : auditor.Errors().All()) {
    char buffer[32];
    snprintf(buffer, sizeof(buffer), " 0x%04X@%d", static_cast<unsigned>(error.eid), static_cast<int>(error.position));
    result += buffer;
  }
  return result.empty() ? " <none>" : result;
}

static void Expect(Auditor& auditor, const std::string& expr, const bool accepted, const SemanticEID expected) {
  const bool verdict = auditor.CheckType(expr, Syntax::ASCII);
  bool found = false;
  for (const auto& error : auditor.Errors().All()) {
    found = found || error.eid == static_cast<uint32_t>(expected);
  }
  const bool ok = verdict == accepted && found;
  std::cout << (ok ? "  ok   " : "  BAD  ") << expr << "\n         -> " << (verdict ? "accepted" : "rejected")
    << ", reported:" << Codes(auditor) << "\n";
  if (!ok) {
    ++failures;
  }
}

int main() {
  Context context{};
  context.types["X1"] = Typification("X1").Bool();
  Auditor auditor{ context,
    [](const std::string&) { return ValueClass::value; },
    [](const std::string&) -> const SyntaxTree* { return nullptr; } };

  std::cout << "reuse of a name after its scope ended is a warning (localDoubleDeclare 0x2801):\n";
  Expect(auditor, R"((D{x \in X1 | x \eq x}, D{x \in X1 | x \eq x}))", true, SemanticEID::localDoubleDeclare);
  Expect(auditor, R"((D{x \in X1 | x \eq x}, R{a \assign X1 | a}, D{x \in X1 | x \eq x}))", true, SemanticEID::localDoubleDeclare);
  Expect(auditor, R"(\A x \in X1 x \eq x \and R{a \assign X1 | a} \eq X1 \and \A x \in X1 x \eq x)", true, SemanticEID::localDoubleDeclare);

  std::cout << "use of a name after its scope ended is localOutOfScope (0x8815), not localUndeclared (0x8801):\n";
  Expect(auditor, R"((D{x \in X1 | x \eq x}, x))", false, SemanticEID::localOutOfScope);
  Expect(auditor, R"((D{x \in X1 | x \eq x}, R{a \assign X1 | a}, x))", false, SemanticEID::localOutOfScope);

  std::cout << (failures == 0 ? "PASS" : "FAIL") << "\n";
  return failures == 0 ? 0 : 1;
}
