// C10-4 (borderline): a term that refers to itself (directly or through another term) gets a longer resolved text
// on every load, so saving a loaded schema never reproduces the document it was loaded from.
#include "ccl/tools/JSON.h"
#include "ccl/semantic/RSForm.h"
#include <iostream>

using JSON = nlohmann::ordered_json;
using ccl::semantic::RSForm;
using ccl::semantic::CstType;

static bool RoundTrip(const RSForm& schema, const char* title) {
  std::cout << title << "\n";
  auto document = JSON(schema);
  bool ok = true;
  for (int i = 0; i < 3; ++i) {
    RSForm loaded{};
    document.get_to(loaded);
    auto next = JSON(loaded);
    std::cout << "  save " << i << ": " << document["items"][0]["term"]["resolved"].dump() << "\n";
    if (next.dump() != document.dump()) {
      ok = false;
    }
    document = std::move(next);
  }
  std::cout << (ok ? "  stable\n" : "  every load changes the document\n");
  return ok;
}

int main() {
  bool ok = true;
  {
    RSForm schema{};
    const auto x1 = schema.Emplace(CstType::base);
    schema.SetTermFor(x1, "big @{X1|sing,nomn}");
    ok = RoundTrip(schema, "term of X1 mentions X1") && ok;
  }
  {
    RSForm schema{};
    const auto x1 = schema.Emplace(CstType::base);
    const auto x2 = schema.Emplace(CstType::base);
    schema.SetTermFor(x1, "owner of @{X2|sing,gent}");
    schema.SetTermFor(x2, "thing of @{X1|sing,gent}");
    ok = RoundTrip(schema, "terms of X1 and X2 mention each other") && ok;
  }
  std::cout << (ok ? "PASS" : "FAIL") << "\n";
  return ok ? 0 : 1;
}
