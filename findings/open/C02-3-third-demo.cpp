// C02-3 (arguable, see notes.txt): the type checker takes the KIND of a call from the spelling of the name (P.. is a
// logical expression, F.. is a set expression - that is how the grammar places them), but the TYPE from the context,
// and never compares the two. With a TypeContext in which P9 is a term-function typed B(X1) the checker accepts
// "P9[D5] & 1=1" as LOGIC and Interpreter::Evaluate lets std::bad_variant_access escape; with F9 typed LOGIC the
// checker itself throws on "F9[D5]=X1".
//
// build: g++ -std=c++20 -O0 -w -DNDEBUG $(cat <out>/inc.txt) demo.cpp <out>/libccl.a -o demo
#include "ccl/rslang/Interpreter.h"
#include "ccl/rslang/Parser.h"
#include "ccl/rslang/TypeAuditor.h"
#include "ccl/rslang/StructuredData.h"

#include <iostream>
#include <unordered_map>

using namespace ccl::rslang;
using ccl::object::StructuredData;
using ccl::object::Factory;

struct Global {
  std::optional<ExpressionType> type{};
  std::optional<FunctionArguments> args{};
  ccl::meta::UniqueCPPtr<SyntaxTree> ast{ nullptr };
  std::optional<StructuredData> data{};
};

struct Env final : TypeContext {
  std::unordered_map<std::string, Global> globals{};

  const ExpressionType* TypeFor(const std::string& n) const final {
    const auto it = globals.find(n);
    return it == globals.end() || !it->second.type.has_value() ? nullptr : &it->second.type.value();
  }
  const FunctionArguments* FunctionArgsFor(const std::string& n) const final {
    const auto it = globals.find(n);
    return it == globals.end() || !it->second.args.has_value() ? nullptr : &it->second.args.value();
  }
  std::optional<TypeTraits> TraitsFor(const Typification& t) const final {
    if (!t.IsElement()) return std::nullopt;
    if (t == Typification::Integer()) return TraitsIntegral;
    return TraitsNominal;
  }
  // definition is parsed and type checked by the library, its type and arguments are stored
  bool Define(const std::string& name, const std::string& definition) {
    Parser parser{};
    if (!parser.Parse(name + ":==" + definition, Syntax::MATH)) return false;
    TypeAuditor checker{ *this };
    if (!checker.CheckType(parser.AST())) return false;
    globals[name].type = checker.GetType();
    globals[name].args = checker.GetDeclarationArgs();
    globals[name].ast = parser.ExtractAST();
    return true;
  }
};

// true - fine (refused, reported evaluation error, or value matching the reported type)
static bool Scenario(Env& env, const std::string& expr) {
  std::cout << expr << std::endl;
  Parser parser{};
  if (!parser.Parse(expr, Syntax::MATH)) {
    std::cout << "  refused by the parser" << std::endl;
    return true;
  }
  TypeAuditor checker{ env };
  try {
    if (!checker.CheckType(parser.AST())) {
      std::cout << "  refused by the type checker" << std::endl;
      return true;
    }
  } catch (const std::exception& e) {
    std::cout << "  type checker throws: " << e.what() << std::endl;
    return false;
  }
  const auto type = checker.GetType();
  const auto isLogic = std::holds_alternative<LogicT>(type);
  std::cout << "  accepted with type " << (isLogic ? std::string{ "LOGIC" } : std::get<Typification>(type).ToString()) << std::endl;

  Interpreter interpreter{ env,
    [&env](const std::string& name) -> const SyntaxTree* {
      const auto it = env.globals.find(name);
      return it == env.globals.end() ? nullptr : it->second.ast.get();
    },
    [&env](const std::string& name) -> std::optional<StructuredData> {
      const auto it = env.globals.find(name);
      return it == env.globals.end() ? std::nullopt : it->second.data;
    } };
  try {
    const auto value = interpreter.Evaluate(expr, Syntax::MATH);
    if (!value.has_value()) {
      for (const auto& err : interpreter.Errors().All()) {
        if (err.eid == static_cast<uint32_t>(ValueEID::unknownError)) {
          std::cout << "  unknown evaluation error" << std::endl;
          return false;
        }
      }
      std::cout << "  evaluation error reported" << std::endl;
      return true;
    }
    if (std::holds_alternative<bool>(value.value()) != isLogic) {
      std::cout << "  kind of the value does not match the reported type" << std::endl;
      return false;
    }
    if (!isLogic && !ccl::object::CheckCompatible(std::get<StructuredData>(value.value()), std::get<Typification>(type))) {
      std::cout << "  value does not have the structure of the reported type" << std::endl;
      return false;
    }
  } catch (const std::exception& e) {
    std::cout << "  evaluation throws: " << e.what() << std::endl;
    return false;
  }
  std::cout << "  value matches the reported type" << std::endl;
  return true;
}

int main() {
  Env env;
  env.globals["X1"].type = Typification("X1").Bool();
  env.globals["X1"].data = Factory::SetV({ 1, 2, 3 });
  env.globals["D5"].type = Typification("X1");
  env.globals["D5"].data = Factory::Val(2);

  const std::string in = "\xE2\x88\x88";      // ∈
  // consistent pair: the spelling agrees with the type
  auto ok = env.Define("F1", "[a" + in + "X1] {a}") && env.Define("P1", "[a" + in + "X1] a=a");
  // a type context is free to type the names the other way round (rslang does not document any restriction)
  ok = env.Define("P9", "[a" + in + "X1] {a}") && env.Define("F9", "[a" + in + "X1] a=a") && ok;
  if (!ok) {
    std::cout << "definitions are refused" << std::endl;
  }

  ok = Scenario(env, "P1[D5] & F1[D5]=F1[D5]") && ok;             // sanity
  ok = Scenario(env, "P9[D5] & 1=1") && ok;                       // evaluator: std::get<bool> on a set
  ok = Scenario(env, "{x" + in + "X1 | P9[x]}") && ok;            // evaluator: std::get<bool> on a set
  ok = Scenario(env, "F9[D5]=X1") && ok;                          // checker: std::get<Typification> on LOGIC
  std::cout << (ok ? "PASS" : "FAIL") << std::endl;
  return ok ? 0 : 1;
}
