// C04 finding 1: the size and nesting of a typification is not bounded.
// Three inputs, each analysed in a child process (a crash of the analysis must not kill the reporter):
//   A. schema JSON: F1:==[a in B(R1)] B^900(a), D1:==F1[X1], Dk:==F1[D(k-1)], k<=200 (every definition is tiny)
//      -> typification of Dk is nested k*900 deep -> stack overflow in schema load
//   B. schema with one template function F1:==[a in B(R1)] B^300(a), expression F1[F1[...F1[X1]...]] (600 calls)
//      -> CheckExpression builds a typification nested 180000 deep -> stack overflow
//   C. no schema at all, a 600-byte expression  Av0 in Z Av1 in {(v0,v0)} ... Av40 in {(v39,v39)} v40=v40
//      -> typification of v_k has 2^k leaves -> memory exhaustion (std::bad_alloc) / does not finish
// Expected: every call returns normally; the analysis either succeeds or reports failure with a critical error.
#include "ccl/api/RSFormJA.h"
#include "ccl/tools/JSON.h"

#include <iostream>
#include <string>
#include <sys/resource.h>
#include <sys/wait.h>
#include <unistd.h>

using ccl::api::RSFormJA;
using JSON = nlohmann::ordered_json;

static const std::string B = "\xE2\x84\xAC";      // boolean
static const std::string IN = "\xE2\x88\x88";     // element-of
static const std::string FORALL = "\xE2\x88\x80"; // for all

static std::string Item(int uid, const std::string& type, const std::string& alias, const std::string& def) {
  return "{\"entityUID\":" + std::to_string(uid) + ",\"cstType\":\"" + type + "\",\"alias\":\"" + alias +
    "\",\"definition\":{\"formal\":\"" + def + "\"}}";
}

// returns 0 if the analysis returned normally and reported its verdict faithfully
static int VerdictOf(const std::string& checkResult) {
  const auto result = JSON::parse(checkResult);
  const bool success = result.at("parseResult").get<bool>();
  bool critical = false;
  for (const auto& error : result.at("errors")) {
    critical = critical || error.at("isCritical").get<bool>();
  }
  std::cout << "    analysis returned: parseResult=" << success << " criticalErrors=" << critical << std::endl;
  return success != critical ? 0 : 3;
}

static std::string NestingFunction(const int depth) {
  std::string def = "[a" + IN + B + "(R1)] ";
  for (int d = 0; d < depth; ++d) {
    def += B;
  }
  return def + "(a)";
}

static int ScenarioA() {
  static constexpr int count = 200;
  static constexpr int depth = 900;
  std::string json = "{\"items\":[" + Item(1, "basic", "X1", "") + "," + Item(2, "function", "F1", NestingFunction(depth));
  for (int i = 1; i <= count; ++i) {
    const auto def = "F1[" + (i == 1 ? std::string("X1") : "D" + std::to_string(i - 1)) + "]";
    json += "," + Item(i + 2, "term", "D" + std::to_string(i), def);
  }
  json += "]}";
  auto schema = RSFormJA::FromJSON(json); // = pyconcept.check_schema / check_expression / check_constituenta
  const auto out = schema.ToJSON();
  std::cout << "    schema of " << count << " terms loaded, output " << out.size() << " bytes" << std::endl;
  return VerdictOf(schema.CheckExpression("D" + std::to_string(count) + "=D" + std::to_string(count)));
}

static int ScenarioB() {
  static constexpr int depth = 300;
  static constexpr int calls = 600;
  auto schema = RSFormJA::FromJSON(
    "{\"items\":[" + Item(1, "basic", "X1", "") + "," + Item(2, "function", "F1", NestingFunction(depth)) + "]}"
  );
  std::string expr{};
  for (int i = 0; i < calls; ++i) {
    expr += "F1[";
  }
  expr += "X1";
  for (int i = 0; i < calls; ++i) {
    expr += "]";
  }
  return VerdictOf(schema.CheckExpression(expr));
}

static int ScenarioC() {
  static constexpr int levels = 40;
  std::string expr = FORALL + "v0" + IN + "Z ";
  for (int i = 1; i <= levels; ++i) {
    const auto prev = "v" + std::to_string(i - 1);
    expr += FORALL + "v" + std::to_string(i) + IN + "{(" + prev + "," + prev + ")} ";
  }
  expr += "v" + std::to_string(levels) + "=v" + std::to_string(levels);
  std::cout << "    expression of " << expr.size() << " bytes" << std::endl;
  auto schema = RSFormJA::FromJSON("{\"items\":[]}");
  return VerdictOf(schema.CheckExpression(expr));
}

static bool RunIsolated(const char* name, int (*scenario)()) {
  std::cout << name << std::endl;
  const auto pid = fork();
  if (pid == 0) {
    rlimit memory{ 768UL << 20U, 768UL << 20U };
    setrlimit(RLIMIT_AS, &memory);
    alarm(150);
    int code = 4;
    try {
      code = scenario();
    } catch (const std::exception& e) {
      std::cout << "    exception: " << e.what() << std::endl;
    }
    _exit(code);
  }
  int status = 0;
  waitpid(pid, &status, 0);
  if (WIFSIGNALED(status)) {
    std::cout << "    killed by signal " << WTERMSIG(status) << (WTERMSIG(status) == SIGSEGV ? " (SIGSEGV)" : "")
      << (WTERMSIG(status) == SIGALRM ? " (did not finish in 150 s)" : "") << std::endl;
    return false;
  }
  return WIFEXITED(status) && WEXITSTATUS(status) == 0;
}

int main() {
  bool ok = true;
  ok = RunIsolated("A. chain of 200 terms Dk:==F1[D(k-1)], F1 nests the typification of its argument 900 levels deeper", ScenarioA) && ok;
  ok = RunIsolated("B. 600 nested calls of a template function that nests its argument 300 levels deeper", ScenarioB) && ok;
  ok = RunIsolated("C. 40 quantifiers, each variable is a pair of the previous one", ScenarioC) && ok;
  std::cout << (ok ? "PASS" : "FAIL") << std::endl;
  return ok ? 0 : 1;
}
