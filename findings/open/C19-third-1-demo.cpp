// C19-1: an operation executed on operand data that could not be saved keeps reporting "done"
// after the announced change that removes that data again.
//
// Build: g++ -std=c++20 -O0 -w -DNDEBUG $(cat <lib>/inc.txt) demo.cpp <lib>/libccl.a -o demo

#include "ccl/env/cclEnvironment.h"
#include "ccl/oss/OSSchema.h"
#include "ccl/ops/RSOperations.h"

#include <iostream>
#include <set>

// ---- verbatim copy of the upstream test double ccl/core/test/utils/FakeSourceManager.hpp ----

#include "ccl/semantic/RSForm.h"
#include "ccl/oss/OSSchema.h"
#include "ccl/env/cclEnvironment.h"

#include <list>
#include <memory>

class FakeTRS : public ccl::src::Source, public ccl::types::Observer {
  using SrcType = ccl::src::SrcType;
  using DataStream = ccl::src::DataStream;
  using RSForm = ccl::semantic::RSForm;

public:
  RSForm schema{};
  std::u8string fullName{};
  bool unsavable{ false };
  bool unwritable{ false };

private:
  bool saved{ true };
  bool open{ true };

public:
  ~FakeTRS() {
    schema.RemoveObserver(*this);
  }
  FakeTRS() {
    schema.AddObserver(*this);
  }
  FakeTRS(const FakeTRS&) = delete;
  FakeTRS& operator=(const FakeTRS&) = delete;

  FakeTRS(FakeTRS&& predecessor) noexcept {
    schema = predecessor.schema;
    fullName = predecessor.fullName;
    open = predecessor.open;
    saved = predecessor.saved;
    unsavable = predecessor.unsavable;

    schema.RemoveObserver(predecessor);
    schema.AddObserver(*this);
  }

  FakeTRS& operator=(FakeTRS&& predecessor) noexcept {
    schema = predecessor.schema;
    fullName = predecessor.fullName;
    open = predecessor.open;
    saved = predecessor.saved;
    unsavable = predecessor.unsavable;

    schema.RemoveObserver(predecessor);
    schema.AddObserver(*this);
    return *this;
  }

public:
  [[nodiscard]] bool IsOpened() const { return open; }

  void OpenNoTrigger() { open = true; }

  void TriggerOpen() {
    open = true;
    ccl::Environment::Sources().OnSourceOpen(*this);
  };

  void TriggerClose() { 
    ccl::Environment::Sources().OnSourceClose(*this); 
    open = false; 
    saved = true; 
  };

  void TriggerSave() {
    if (!saved) {
      ccl::Environment::Sources().OnSourceChange(*this);
      saved = true;
    }
  };

  void OnObserve(const ccl::types::Message& /*msg*/) override {
    saved = false;
  }

  [[nodiscard]] ccl::change::Hash CoreHash() const override { return schema.CoreHash(); }
  [[nodiscard]] ccl::change::Hash FullHash() const override { return schema.FullHash(); }
  [[nodiscard]] bool WriteData(ccl::meta::UniqueCPPtr<DataStream> data) override {
    if (unwritable) {
      return false;
    } else {
      const auto* rsData = dynamic_cast<const RSForm*>(data.get());
      if (rsData == nullptr) {
        return false;
      } else {
        schema = *rsData;
        return true;
      }
    }
  }
  [[nodiscard]] const DataStream* ReadData() const override { return &schema; }
  [[nodiscard]] DataStream* AccessData() override { return &schema; }
  [[nodiscard]] SrcType Type() const noexcept override { return SrcType::rsDoc; }
};

class FakeSourceManager final : public ccl::SourceManager {
  using Container = std::list<FakeTRS>;

  using SrcType = ccl::src::SrcType;
  using Source = ccl::src::Source;
  using Descriptor = ccl::src::Descriptor;

public:
  bool rejectDomain{ false };

private:
  Container sources{};

public:
  const FakeTRS& DummyCast(const Source& src) const { return dynamic_cast<const FakeTRS&>(src); }
  FakeTRS& DummyCast(Source& src) { return dynamic_cast<FakeTRS&>(src); }

  void DestroySource(FakeTRS& src) {
    for (auto it = std::begin(sources); it != std::end(sources); ++it) {
      if (&*it == &src) {
        if (src.IsOpened()) {
          SourceManager::OnSourceClose(src);
        }
        sources.erase(it);
        return;
      }
    }
  }

  void ReplaceSourceData(FakeTRS& src, const ccl::semantic::RSForm& newSchema) {
    for (auto it = std::begin(sources); it != std::end(sources); ++it) {
      if (&*it == &src) {
        if (src.IsOpened()) {
          SourceManager::OnSourceClose(src);
        }
        it->schema = newSchema;
        return;
      }
    }
  }

  FakeTRS& CreateNewRS() {
    static auto uid = 0;
    ++uid;
    auto& result = DummyCast(*CreateNew(Descriptor{ SrcType::rsDoc, ccl::to_u8string(uid) }));
    result.fullName = ccl::to_u8string(uid) + u8".trs";
    return result;
  }

public:
  [[nodiscard]] bool TestDomain(const Descriptor& global, const std::u8string& domain) const override {
    return !rejectDomain && 
      (std::empty(domain) || global.name.find(domain) == 0);
  }

  [[nodiscard]] Descriptor Convert2Local(const Descriptor& global, const std::u8string& domain) const override {
    auto local = global;
    if (!std::empty(domain)) {
      local.name.erase(0, domain.length());
    }
    return local;
  }

  [[nodiscard]] Descriptor Convert2Global(const Descriptor& local, const std::u8string& domain) const override {
    return Descriptor{ local.type, domain + local.name };
  }


  [[nodiscard]] Source* Find(const Descriptor& desc) override {
    if (desc.type != SrcType::rsDoc) {
      return SourceManager::Find(desc);
    } else {
      for (auto& src : sources) {
        if (src.fullName == desc.name && src.IsOpened()) {
          return &src;
        }
      }
      return nullptr;
    }
  }

  [[nodiscard]] Descriptor CreateLocalDesc(SrcType type, std::u8string localName) const override {
    if (type != SrcType::rsDoc) {
      return SourceManager::CreateLocalDesc(type, localName);
    } else {
      if (std::empty(localName)) {
        static auto i = 0;
        localName = u8"local" + ccl::to_u8string(++i); // Note: making new local name always different
      }
      localName += u8".trs";
      return Descriptor{ type, localName };
    }
  }

  [[nodiscard]] Descriptor GetDescriptor(const Source& src) const override {
    if (const auto* srcPtr = dynamic_cast<const FakeTRS*>(&src); srcPtr != nullptr) {
      return Descriptor{ SrcType::rsDoc, srcPtr->fullName };
    } else {
      return Descriptor{};
    }
  }

  [[nodiscard]] Source* CreateNew(const Descriptor& desc) override {
    if (Find(desc) != nullptr) {
      return nullptr;
    } else if (desc.type != SrcType::rsDoc) {
      return SourceManager::CreateNew(desc);
    } else {
      sources.emplace_back(FakeTRS{});
      sources.back().fullName = desc.name;
      return &sources.back();
    }
  }

  [[nodiscard]] Source* Open(const Descriptor& desc) override {
    if (desc.type == SrcType::rsDoc) {
      for (auto& src : sources) {
        if (src.fullName == desc.name) {
          DummyCast(src).TriggerOpen();
          return &src;
        }
      }
    }
    return nullptr;
  }

  void Close(Source& src) override {
    SourceManager::OnSourceChange(src);
    SourceManager::OnSourceClose(src);
    DummyCast(src).TriggerSave();
    DummyCast(src).TriggerClose();
  }

  [[nodiscard]] bool ChangeDescriptor(const Descriptor& desc, const Descriptor& newDesc) override {
    if (desc.type != newDesc.type ||
        desc.type != SrcType::rsDoc) {
      return false;
    } else if (auto* targetSrc = Find(desc); targetSrc == nullptr || Find(newDesc) != nullptr) {
      return false;
    } else {
      for (const auto& src : sources) {
        if (src.fullName == newDesc.name) {
          return false;
        }
      }
      DummyCast(*targetSrc).fullName = newDesc.name;
      return true;
    }
  }

  [[nodiscard]] bool SaveState(Source& src) override {
    if (DummyCast(src).IsOpened() && !DummyCast(src).unsavable) {
      DummyCast(src).TriggerSave();
      return true;
    } else {
      return false;
    }
  }

  void Discard(const Descriptor& desc) override {
    if (auto* src = Open(desc); src != nullptr) {
      src->ReleaseClaim();
      Close(*src);
    }
  }
};
// ---- end of copy ----

using ccl::Environment;
using ccl::oss::OSSchema;
using ccl::semantic::CstType;
using ccl::semantic::RSForm;
namespace ops = ccl::ops;

static FakeSourceManager& SM() { return dynamic_cast<FakeSourceManager&>(Environment::Sources()); }

static std::multiset<std::string> Formal(const RSForm& schema) {
  std::multiset<std::string> result{};
  for (const auto uid : schema.Core()) {
    result.insert(schema.GetRS(uid).alias + ":=" + schema.GetRS(uid).definition);
  }
  return result;
}

static const char* Name(ops::Status s) {
  switch (s) {
  case ops::Status::undefined: return "undefined";
  case ops::Status::defined: return "defined";
  case ops::Status::done: return "done";
  case ops::Status::outdated: return "outdated";
  case ops::Status::broken: return "broken";
  }
  return "?";
}

int main() {
  Environment::Instance().SetSourceManager(std::make_unique<FakeSourceManager>());
  int failures = 0;
  {
    OSSchema oss{};
    const auto base1 = oss.InsertBase()->uid;
    const auto base2 = oss.InsertBase()->uid;
    auto& src1 = SM().CreateNewRS();
    auto& src2 = SM().CreateNewRS();
    src1.schema.Emplace(CstType::base);
    src2.schema.Emplace(CstType::base);
    oss.Src().ConnectPict2Src(base1, src1);
    oss.Src().ConnectPict2Src(base2, src2);

    const auto child = oss.InsertOperation(base1, base2)->uid;
    const auto sibling = oss.InsertOperation(base2, base1)->uid;
    oss.Ops().InitFor(child, ops::Type::rsMerge);
    oss.Ops().InitFor(sibling, ops::Type::rsMerge);
    if (!oss.Ops().Execute(child) || !oss.Ops().Execute(sibling)) {
      std::cout << "setup failed\n";
      return 2;
    }

    // The document of base1 cannot be saved for a while (the manager's SaveState answers false).
    // The user adds a term and executes the child: the synthesis is made from the data the source serves now.
    src1.unsavable = true;
    const auto added = src1.schema.Emplace(CstType::term, "X1\\X1");
    const bool executed = oss.Ops().Execute(child);
    auto& childSchema = SM().DummyCast(*oss.Src()(child)->src).schema;
    std::cout << "Execute(child) with unsavable operand = " << executed
      << ", child has " << std::size(childSchema.Core()) << " constituents\n";
    std::cout << "status child=" << Name(oss.Ops().StatusOf(child))
      << " sibling=" << Name(oss.Ops().StatusOf(sibling)) << " (sibling was made from base1 without the term)\n";

    // The user removes the term again, the document becomes savable and is saved: the change is announced.
    src1.schema.Erase(added);
    src1.unsavable = false;
    src1.TriggerSave();

    const auto status = oss.Ops().StatusOf(child);
    const auto current = ops::BinarySynthes(src1.schema, src2.schema, ops::EquationOptions{}).Execute();
    const bool same = Formal(*current) == Formal(childSchema);
    std::cout << "after announced change: status child=" << Name(status)
      << ", stored result equals synthesis of current operands: " << same << "\n";
    if (status == ops::Status::done && !same) {
      std::cout << "child reports done for a result that contains a term its operand no longer has\n";
      ++failures;
    }
  }
  Environment::Instance().SetSourceManager(std::make_unique<ccl::SourceManager>());
  std::cout << (failures == 0 ? "PASS" : "FAIL") << "\n";
  return failures == 0 ? 0 : 1;
}
