// C18 finding 3 (borderline): after a definition edit that keeps the tree shape (spacing / brackets),
// the Schema keeps the tree produced for the PREVIOUS text: node positions do not belong to the current text.
#include "ccl/semantic/Schema.h"
#include "ccl/rslang/SyntaxTree.h"

#include <iostream>
#include <sstream>

using namespace ccl::semantic;
using ccl::rslang::SyntaxTree;
using ccl::rslang::Index;

static void Dump(SyntaxTree::Cursor node, std::ostringstream& out) {
  out << "[" << node->ToString() << "@" << node->pos.start << "-" << node->pos.finish;
  for (Index child = 0; child < node.ChildrenCount(); ++child) {
    Dump(node.Child(child), out);
  }
  out << "]";
}

static std::string Tree(const Schema& schema, ccl::EntityUID uid) {
  std::ostringstream out;
  const auto& info = schema.InfoFor(uid);
  if (info.ast != nullptr) {
    Dump(info.ast->Root(), out);
  } else {
    out << "no tree";
  }
  return out.str();
}

static int Check(const char* title, const Schema& schema, ccl::EntityUID uid) {
  Schema fresh{};
  for (const auto& cst : schema) {
    fresh.InsertCopy(cst);
  }
  const auto reused = Tree(schema, uid);
  const auto expected = Tree(fresh, uid);
  std::cout << title << "  text=<" << schema.At(uid).definition << ">\n  with a past: " << reused << "\n  fresh      : " << expected << "\n";
  // what a client does with the stored tree: locate the node under a text selection
  if (schema.InfoFor(uid).ast == nullptr || fresh.InfoFor(uid).ast == nullptr) {
    return 1;
  }
  const auto& text = schema.At(uid).definition;
  const auto prefix = static_cast<ccl::StrPos>(schema.At(uid).alias.size() + 3); // "D1:=="
  const ccl::StrRange lastSymbol{ static_cast<ccl::StrPos>(prefix + text.size() - 2), static_cast<ccl::StrPos>(prefix + text.size()) };
  const auto found = ccl::rslang::FindMinimalNode(schema.InfoFor(uid).ast->Root(), lastSymbol);
  const auto foundFresh = ccl::rslang::FindMinimalNode(fresh.InfoFor(uid).ast->Root(), lastSymbol);
  std::cout << "  node at the last two characters: with a past=" << (found.has_value() ? found.value()->ToString() : std::string{ "none" })
            << "  fresh=" << (foundFresh.has_value() ? foundFresh.value()->ToString() : std::string{ "none" }) << "\n";
  return reused == expected ? 0 : 1;
}

int main() {
  int failures = 0;
  Schema schema{};
  schema.Emplace(1, "X1", CstType::base);
  schema.Emplace(2, "D0", CstType::term, "X1");
  schema.Emplace(3, "D1", CstType::term, "X1\\D0");
  failures += Check("[0] initial", schema, 3);
  schema.SetDefinitionFor(3, "X1     \\     D0");
  failures += Check("[1] after re-spacing", schema, 3);
  schema.SetDefinitionFor(3, "(X1\\D0)");
  failures += Check("[2] after adding brackets", schema, 3);
  std::cout << (failures == 0 ? "PASS" : "FAIL") << "\n";
  return failures == 0 ? 0 : 1;
}
