// C05 finding 4 (ARGUABLE - see notes.txt): conversion is not idempotent for text that is
// spelled with characters common to both syntaxes. '*' is MULTIPLY in MATH and DECART in ASCII, and
// ConvertTo(text, target) always parses `text` in the OTHER syntax, so applying the same conversion
// to its own output re-reads '*' with the other meaning:
//   convert_to_math (convert_to_math ("X1 \multiply X2")) == "X1×X2"            (product -> Cartesian product)
//   convert_to_ascii(convert_to_ascii("X1×X2"))           == "X1 \multiply X2"  (Cartesian product -> product)
// PASS criterion: f(f(x)) == f(x) for f = ConvertTo(., MATH) and f = ConvertTo(., ASCII).
#include "ccl/rslang/RSGenerator.h"
#include <iostream>

using namespace ccl::rslang;

static int Check(const std::string& text, const Syntax target) {
  const auto once = ConvertTo(text, target);
  const auto twice = ConvertTo(once, target);
  std::cout << "  [" << text << "] -> [" << once << "] -> [" << twice << "]"
            << (once == twice ? " idempotent" : " NOT idempotent") << "\n";
  return once == twice ? 0 : 1;
}

int main() {
  int bad = 0;
  bad += Check(R"(X1 \multiply X2)", Syntax::MATH);
  bad += Check(R"(card(X1) \multiply 2 \eq 4)", Syntax::MATH);
  bad += Check("X1\xC3\x97X2", Syntax::ASCII);
  bad += Check("D{\xCE\xBE\xE2\x88\x88X1\xC3\x97X1 | pr1(\xCE\xBE)=pr2(\xCE\xBE)}", Syntax::ASCII);
  // controls
  bad += Check(R"(X1 \union X2)", Syntax::MATH);
  bad += Check("X1\xE2\x88\xAAX2", Syntax::ASCII);
  std::cout << (bad == 0 ? "PASS" : "FAIL") << "\n";
  return bad == 0 ? 0 : 1;
}
