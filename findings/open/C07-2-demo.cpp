// C07-2: Schema::Erase / Thesaurus::Erase keep the dependency graph "valid" although erasing a constituent can change
// which constituent a name resolves to (Schema and Thesaurus accept several constituents with one alias; a name is
// resolved to the one with the smallest identifier). The edges to the constituent that now owns the name are missing,
// so the re-analysis after the erasure runs in the wrong order and later incremental refreshes skip dependants.
#include "ccl/semantic/Schema.h"
#include "ccl/semantic/Thesaurus.h"
#include "ccl/lang/Reference.h"

#include <iostream>

using namespace ccl;
using namespace ccl::semantic;
using lang::LexicalTerm;
using lang::ManagedText;
using lang::Morphology;
using lang::Grammem;

static const EntityUID first{ 1 }, second{ 3 }, user{ 5 };
static const std::string unionX1 = "X1\xE2\x88\xAAX1"; // X1∪X1

static bool CheckSchema() {
  Schema edited{};
  edited.Emplace(first, "X1", CstType::base);
  edited.Emplace(second, "X1", CstType::base);   // accepted: returns true (upstream UTSchema.Emplace asserts this)
  edited.Emplace(user, "D1", CstType::term, unionX1);
  edited.Erase(first);

  Schema fresh{};
  fresh.Emplace(second, "X1", CstType::base);
  fresh.Emplace(user, "D1", CstType::term, unionX1);

  const auto statusEdited = static_cast<int>(edited.InfoFor(user).status);
  const auto statusFresh = static_cast<int>(fresh.InfoFor(user).status);
  const auto edgesEdited = edited.Graph().InputsFor(user).size();
  const auto edgesFresh = fresh.Graph().InputsFor(user).size();
  std::cout << "Schema    D1 status edited=" << statusEdited << " fresh=" << statusFresh
    << " (1=VERIFIED 2=INCORRECT); inputs of D1 edited=" << edgesEdited << " fresh=" << edgesFresh << "\n";
  return statusEdited == statusFresh && edgesEdited == edgesFresh
    && edited.InfoFor(user).exprType.has_value() == fresh.InfoFor(user).exprType.has_value();
}

static bool CheckThesaurus() {
  const auto refX1 = lang::EntityRef{ "X1", Morphology{ Grammem::sing, Grammem::nomn } }.ToString();

  Thesaurus edited{};
  edited.Emplace(first, "X1", LexicalTerm{ "first" });
  edited.Emplace(second, "X1", LexicalTerm{ "second" });
  edited.Emplace(user, "D1", LexicalTerm{ refX1 }, ManagedText{ "about " + refX1 });
  edited.Erase(first);
  edited.SetTermFor(second, "changed");

  Thesaurus fresh{};
  fresh.Emplace(second, "X1", LexicalTerm{ "changed" });
  fresh.Emplace(user, "D1", LexicalTerm{ refX1 }, ManagedText{ "about " + refX1 });

  std::cout << "Thesaurus D1 term edited='" << edited.At(user).term.Nominal() << "' fresh='" << fresh.At(user).term.Nominal()
    << "'; definition edited='" << edited.At(user).definition.Str() << "' fresh='" << fresh.At(user).definition.Str()
    << "'; term graph loop=" << fresh.TermGraph().HasLoop() << "\n";
  return edited.At(user).term.Nominal() == fresh.At(user).term.Nominal()
    && edited.At(user).definition.Str() == fresh.At(user).definition.Str()
    && edited.TermGraph().InputsFor(user).size() == fresh.TermGraph().InputsFor(user).size()
    && edited.DefGraph().InputsFor(user).size() == fresh.DefGraph().InputsFor(user).size();
}

int main() {
  const bool schemaOK = CheckSchema();
  const bool textOK = CheckThesaurus();
  const bool ok = schemaOK && textOK;
  std::cout << (ok ? "PASS" : "FAIL") << "\n";
  return ok ? 0 : 1;
}
