// C13-3: OpMaxPart accepts a selected base/constant set whose (incorrect, non-empty) definition depends on a constituent
// outside the selection, so the result is not closed - and after renumbering the mention resolves to the wrong constituent.
//
// Schema: X1, X2 := X1 (a base set with a definition: an incorrect member), D1 := X2.  OpMaxPart{X2}:
// IsCorrectlyDefined() is true although the sibling rule rejects any other selected constituent with an unselected input
// (OpMaxPart{D1} is rejected). Result: "X1 := X1", "D1 := X1" - the mention of the source X1 now names the former X2.
//
// Prints FAIL (exit 1) if the operation is applicable and its result breaks a clause; PASS (exit 0) if the result is closed
// and faithful, or if the operation reports the selection as not correctly defined (as it does for non-base constituents).
#include "ccl/ops/RSOperations.h"
#include "ccl/rslang/RSExpr.h"

#include <iostream>
#include <map>
#include <set>

using namespace ccl;
using semantic::RSForm;
using semantic::CstType;

static const std::string UNION = "\xE2\x88\xAA";

static std::string Describe(const semantic::ParsingInfo& info) {
  std::string result = info.status == semantic::ParsingStatus::VERIFIED ? "VERIFIED" :
    info.status == semantic::ParsingStatus::INCORRECT ? "INCORRECT" : "UNKNOWN";
  if (info.exprType.has_value()) {
    const auto* typification = info.Typification();
    result += typification != nullptr ? " " + typification->ToString() : " LOGIC";
  }
  return result;
}

static void Dump(const char* title, const RSForm& schema) {
  std::cout << "  " << title << ":\n";
  for (const auto uid : schema.List()) {
    std::cout << "    " << schema.GetRS(uid).alias << " := " << schema.GetRS(uid).definition
      << "    [" << Describe(schema.GetParse(uid)) << "]\n";
  }
}

// Checks the clauses of the property that relate a result to its source. Result constituents keep the uid of their origin.
static bool CheckResult(const char* opName, const RSForm& source, const RSForm& result) {
  auto ok = true;
  StrSubstitutes renaming{};
  for (const auto uid : result.List()) {
    if (!source.Contains(uid)) {
      std::cout << opName << ": result constituent has no origin\n";
      return false;
    }
    renaming.insert({ source.GetRS(uid).alias, result.GetRS(uid).alias });
  }
  for (const auto uid : result.List()) {
    const auto& srcCst = source.GetRS(uid);
    const auto& resCst = result.GetRS(uid);

    // every mention keeps what it resolves to (or stays unresolved)
    std::set<std::string> expectedMentions{};
    for (const auto& name : rslang::ExtractUGlobals(srcCst.definition)) {
      const auto srcTarget = source.Core().FindAlias(name);
      if (!srcTarget.has_value()) {
        expectedMentions.insert(name);
        if (const auto captured = result.Core().FindAlias(name); captured.has_value()) {
          ok = false;
          std::cout << opName << ": " << srcCst.alias << " mentions " << name << " which names nothing in the source, but in the result "
            << resCst.alias << " mentions " << name << " which names the former " << source.GetRS(captured.value()).alias << "\n";
        }
      } else if (!result.Contains(srcTarget.value())) {
        ok = false;
        std::cout << opName << ": " << srcCst.alias << " depends on " << name << " which is not in the result\n";
      } else {
        expectedMentions.insert(renaming.at(name));
      }
    }
    std::set<std::string> mentions{};
    for (const auto& name : rslang::ExtractUGlobals(resCst.definition)) {
      mentions.insert(name);
    }
    if (ok && mentions != expectedMentions) {
      ok = false;
      std::cout << opName << ": mentions of " << resCst.alias << " are not the renamed mentions of " << srcCst.alias << "\n";
    }

    // correctness status and typification up to the renaming
    auto expected = Describe(source.GetParse(uid));
    rslang::SubstituteGlobals(expected, renaming);
    if (const auto got = Describe(result.GetParse(uid)); got != expected) {
      ok = false;
      std::cout << opName << ": " << srcCst.alias << " is [" << expected << "] in the source but "
        << resCst.alias << " is [" << got << "] in the result\n";
    }
  }
  if (!ok) {
    Dump("source", source);
    Dump("result", result);
  }
  return ok;
}

int main() {
  RSForm schema{};
  const auto x1 = schema.Emplace(CstType::base);
  const auto x2 = schema.Emplace(CstType::base, "X1");
  const auto d1 = schema.Emplace(CstType::term, "X2");
  const auto c1 = schema.Emplace(CstType::constant, "X1");

  auto ok = true;
  std::cout << "OpMaxPart{D1}.IsCorrectlyDefined() = " << ops::OpMaxPart{ schema, { d1 } }.IsCorrectlyDefined() << " (input X2 not selected)\n";
  for (const auto target : { x2, c1 }) {
    const std::string name = "OpMaxPart{" + schema.GetRS(target).alias + "}";
    ops::OpMaxPart operation{ schema, { target } };
    std::cout << name << ".IsCorrectlyDefined() = " << operation.IsCorrectlyDefined() << " (input X1 not selected)\n";
    const auto result = operation.Execute();
    if (result == nullptr) {
      std::cout << name << ": selection rejected, nothing to check\n";
    } else {
      ok = CheckResult(name.c_str(), schema, *result) && ok;
    }
  }
  std::cout << (ok ? "PASS" : "FAIL") << "\n";
  return ok ? 0 : 1;
}
