// ccl::types::CounterGuard declares a public move constructor and move
// assignment (= default). Moving a guard copies the counter pointer and leaves
// it in the source too, so the counter is decremented once per object instead
// of once per acquisition; a GuardableBool then stays guarded for ever
// (its uint16_t counter wraps to 65535).
#include "ccl/cclTypes.hpp"

#include <iostream>
#include <utility>

namespace ct = ccl::types;

int main() {
  int fails = 0;
  { // move construction
    int counter = 0;
    {
      auto first = ct::CounterGuard<int>(counter);
      auto second = std::move(first);
      if (counter != 1) { std::cout << "BAD  counter after move = " << counter << " (expected 1)\n"; ++fails; }
    }
    std::cout << "move construction: counter after both guards are gone = " << counter << " (expected 0)\n";
    if (counter != 0) { ++fails; }
  }
  { // move assignment
    int a = 0;
    int b = 0;
    {
      auto guardA = ct::CounterGuard<int>(a);
      auto guardB = ct::CounterGuard<int>(b);
      guardA = std::move(guardB);
    }
    std::cout << "move assignment: a = " << a << ", b = " << b << " (expected 0, 0)\n";
    if (a != 0 || b != 0) { ++fails; }
  }
  { // what a client sees through GuardableBool
    ct::GuardableBool flag{ true };
    {
      auto guard = flag.CreateGuard();
      auto holder = std::move(guard); // e.g. the guard is stored in a member or a container
    }
    std::cout << "GuardableBool: guarded after all guards are gone = " << flag.IsGuarded()
      << ", value = " << static_cast<bool>(flag) << " (expected 0, 1)\n";
    if (flag.IsGuarded() || !flag) { ++fails; }
  }
  std::cout << (fails == 0 ? "PASS" : "FAIL") << "\n";
  return fails == 0 ? 0 : 1;
}
