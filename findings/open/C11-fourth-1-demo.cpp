// C11 (ARGUABLE): data of a structure changes behind the model's back through a reference the caller
// obtained from StructuredData::ModifyB() before handing the object (by value) to SetStructureData.
// The stored value of the structure changes without validation and without invalidating dependants.
#include "ccl/semantic/RSModel.h"
#include <iostream>

using namespace ccl;
using namespace ccl::semantic;
using ccl::object::Factory;

int main() {
  RSModel model{};
  const auto x1 = model.Emplace(CstType::base);
  const auto s1 = model.Emplace(CstType::structured, "\xE2\x84\xAC(X1)"); // B(X1)
  const auto d1 = model.Emplace(CstType::term, "card(S1)");
  model.Values().AddBasicElement(x1, "a"); // id 1
  model.Values().AddBasicElement(x1, "b"); // id 2

  auto data = Factory::EmptySet();
  auto& elements = data.ModifyB(); // caller keeps working with its own object through this reference
  elements.AddElement(Factory::Val(1));
  if (!model.Values().SetStructureData(s1, data)) { // passed BY VALUE
    std::cout << "setup failed\n";
    return 2;
  }
  model.Calculations().Calculate(d1);
  const auto before = model.Values().SDataFor(s1).value().ToString();
  const auto d1Before = model.Values().SDataFor(d1).value().ToString();

  // The caller goes on editing ITS OWN object; 7 is not even an element of X1
  elements.AddElement(Factory::Val(7));

  const auto after = model.Values().SDataFor(s1).value().ToString();
  const auto d1After = model.Values().SDataFor(d1);
  const bool calculated = model.Calculations().WasCalculated(d1);
  std::cout << "S1 before: " << before << ", D1 = " << d1Before << "\n";
  std::cout << "S1 after : " << after << ", D1 = " << (d1After.has_value() ? d1After->ToString() : std::string{ "none" })
            << ", D1 calculated flag = " << calculated << "\n";

  // Reference: what a full recalculation reports for the data the model shows now
  model.Calculations().RecalculateAll();
  const auto d1Recalc = model.Values().SDataFor(d1).value().ToString();
  std::cout << "D1 after RecalculateAll: " << d1Recalc << "\n";

  const bool stale = calculated && d1After.has_value() && d1After->ToString() != d1Recalc;
  const bool changedBehindBack = before != after;
  if (stale || changedBehindBack) {
    std::cout << "FAIL: structure data changed without SetStructureData"
              << (stale ? " and the dependant D1 kept a stale value shown as calculated" : "") << "\n";
    return 1;
  }
  std::cout << "PASS\n";
  return 0;
}
