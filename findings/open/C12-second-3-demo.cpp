// C12-3: the alias that MergeWith hands out to a renamed constituent of operand 2 can be a name that a
// definition mentions although no constituent has it: the dangling mention silently gets a meaning
#include "ccl/semantic/RSForm.h"
#include "ccl/semantic/rsOperationFacet.h"
#include "ccl/ops/RSOperations.h"
#include "ccl/ops/EquationOptions.h"
#include <iostream>

using ccl::semantic::RSForm;
using ccl::semantic::CstType;
using ccl::semantic::ParsingStatus;
using ccl::ops::EquationOptions;
using ccl::ops::BinarySynthes;

static int failures = 0;

static void Show(const char* title, const RSForm& schema) {
  std::cout << "  " << title << ":";
  for (const auto uid : schema.List()) {
    std::cout << "  " << schema.GetRS(uid).alias << "[" << schema.GetText(uid).term.Nominal() << "]:=" << schema.GetRS(uid).definition
      << (schema.GetParse(uid).status == ParsingStatus::VERIFIED ? " (ok)" : " (incorrect)");
  }
  std::cout << "\n";
}

// image of 'cst' (constituent of operand number 'index') must not depend on anything its preimage did not mention
static void CheckImage(const char* name, const RSForm& result, const ccl::ops::TranslationData& translations,
                       size_t index, ccl::EntityUID cst, ParsingStatus statusInOperand) {
  const auto image = translations.at(index)(cst);
  const auto inputs = result.RSLang().Graph().InputsFor(image);
  const auto status = result.GetParse(image).status;
  std::cout << "  " << name << " -> " << result.GetRS(image).alias << " := " << result.GetRS(image).definition
    << ", depends on " << inputs.size() << " constituent(s), status "
    << (status == ParsingStatus::VERIFIED ? "VERIFIED" : "INCORRECT") << "\n";
  if (status != statusInOperand) {
    std::cout << "  -> a definition that mentioned an undefined name changed its status in the result\n";
    ++failures;
  }
}

int main() {
  { // A: dangling mention in operand 1 is captured by a renamed constituent of operand 2
    RSForm ks1{};
    const auto x1 = ks1.Emplace(CstType::base);
    ks1.SetTermFor(x1, "people");
    const auto x2 = ks1.Emplace(CstType::base);
    const auto d1 = ks1.Emplace(CstType::term, "X2\\X2");
    ks1.Erase(x2); // D1 mentions X2 that is not there any more
    RSForm ks2{};
    const auto y1 = ks2.Emplace(CstType::base);
    ks2.SetTermFor(y1, "cars");
    std::cout << "A: synthesis without equations\n";
    Show("operand 1", ks1);
    Show("operand 2", ks2);
    BinarySynthes synthes{ ks1, ks2, EquationOptions{} };
    const auto result = synthes.Execute();
    Show("result   ", *result);
    CheckImage("operand 1 D1", *result, synthes.Translations(), 0, d1, ks1.GetParse(d1).status);
  }
  { // B: dangling mention in operand 2 is captured by its own renamed neighbour
    RSForm ks1{};
    const auto x1 = ks1.Emplace(CstType::base);
    ks1.SetTermFor(x1, "people");
    RSForm ks2{};
    const auto y1 = ks2.Emplace(CstType::base);
    ks2.SetTermFor(y1, "cars");
    const auto y2 = ks2.Emplace(CstType::base);
    const auto e1 = ks2.Emplace(CstType::term, "X1\\X2");
    ks2.Erase(y2);
    std::cout << "B: synthesis without equations\n";
    Show("operand 1", ks1);
    Show("operand 2", ks2);
    BinarySynthes synthes{ ks1, ks2, EquationOptions{} };
    const auto result = synthes.Execute();
    Show("result   ", *result);
    CheckImage("operand 2 D1", *result, synthes.Translations(), 1, e1, ks2.GetParse(e1).status);
  }
  { // C: operand 1 is correct as a schema, only a text reference of it points nowhere
    RSForm ks1{};
    const auto x1 = ks1.Emplace(CstType::base);
    ks1.SetTermFor(x1, "people");
    const auto x2 = ks1.Emplace(CstType::base);
    const auto x3 = ks1.Emplace(CstType::base);
    ks1.SetTermFor(x3, "cars");
    const auto d1 = ks1.Emplace(CstType::term, "X1\\X1");
    ks1.SetTermFor(d1, "owners of @{X2|plur,nomn}");
    ks1.Erase(x2);
    RSForm ks2{};
    const auto y1 = ks2.Emplace(CstType::base);
    ks2.SetTermFor(y1, "houses");
    std::cout << "C: synthesis without equations\n";
    Show("operand 1", ks1);
    Show("operand 2", ks2);
    BinarySynthes synthes{ ks1, ks2, EquationOptions{} };
    const auto result = synthes.Execute();
    Show("result   ", *result);
    const auto image = synthes.Translations().at(0)(d1);
    const auto before = ks1.Texts().TermGraph().InputsFor(d1).size();
    const auto after = result->Texts().TermGraph().InputsFor(image).size();
    std::cout << "  operand 1 D1 term [" << ks1.GetText(d1).term.Text().Raw() << "] refers to " << before
      << " constituent(s); its image has term [" << result->GetText(image).term.Text().Raw() << "] = ["
      << result->GetText(image).term.Nominal() << "] and refers to " << after << "\n";
    if (before != after) {
      std::cout << "  -> a text reference to an undefined name now names a constituent of the other operand\n";
      ++failures;
    }
  }
  std::cout << (failures == 0 ? "PASS" : "FAIL") << "\n";
  return failures == 0 ? 0 : 1;
}
