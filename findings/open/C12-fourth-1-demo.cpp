// C12-1: a dangling mention of operand 2 is captured by a same-named constituent of operand 1
// (BinarySynthes / rsOperationFacet::MergeWith -> RSCore::InsertCopy(group)).
#include "ccl/semantic/RSForm.h"
#include "ccl/ops/RSOperations.h"
#include "ccl/rslang/RSExpr.h"
#include "ccl/lang/Reference.h"

#include <iostream>
#include <string>

using ccl::EntityUID;
using ccl::semantic::RSForm;
using ccl::semantic::CstType;
using ccl::semantic::ParsingStatus;
using ccl::ops::BinarySynthes;
using ccl::ops::EquationOptions;

static int failures = 0;

static void Check(const bool ok, const std::string& what) {
  std::cout << (ok ? "  ok   : " : "  BAD  : ") << what << "\n";
  if (!ok) {
    ++failures;
  }
}

static std::string Ref(const std::string& name) {
  return ccl::lang::EntityRef{ name, ccl::lang::Morphology{ ccl::lang::Grammem::nomn, ccl::lang::Grammem::sing } }.ToString();
}

static void Print(const RSForm& schema, const char* title) {
  std::cout << title << "\n";
  for (const auto uid : schema.List()) {
    const auto& cst = schema.GetRS(uid);
    std::cout << "    " << cst.alias << " := [" << cst.definition << "]"
      << " term=[" << schema.GetText(uid).term.Text().Raw() << "] -> [" << schema.GetText(uid).term.Nominal() << "]"
      << (schema.GetParse(uid).status == ParsingStatus::VERIFIED ? " VERIFIED" : " INCORRECT") << "\n";
  }
}

//! No name mentioned by the definition of target resolves to a constituent of schema
static bool AllMentionsDangling(const RSForm& schema, const EntityUID target) {
  for (const auto& name : ccl::rslang::ExtractUGlobals(schema.GetRS(target).definition)) {
    if (schema.Core().FindAlias(name).has_value()) {
      return false;
    }
  }
  return true;
}

//! No entity referenced by the term of target resolves to a constituent of schema
static bool AllReferencesDangling(const RSForm& schema, const EntityUID target) {
  for (const auto& name : schema.GetText(target).term.Text().Referals()) {
    if (schema.Core().FindAlias(name).has_value()) {
      return false;
    }
  }
  return true;
}

int main() {
  // Operand 1: two unrelated base sets X1 ("car"), X2 ("owner"); fully correct
  RSForm schema1{};
  const auto car = schema1.Emplace(CstType::base);
  const auto owner = schema1.Emplace(CstType::base);
  schema1.SetTermFor(car, "car");
  schema1.SetTermFor(owner, "owner");

  // Operand 2: X1 ("city"), D1 := X2\X2 and T1 with a term "mayor of @{X2|...}" - both mention X2 which was erased
  RSForm schema2{};
  const auto city = schema2.Emplace(CstType::base);
  const auto river = schema2.Emplace(CstType::base);
  const auto d1 = schema2.Emplace(CstType::term, "X2\\X2");
  const auto t1 = schema2.Emplace(CstType::theorem, "X1=X1");
  schema2.SetTermFor(city, "city");
  schema2.SetTermFor(t1, "mayor of " + Ref("X2"));
  schema2.Erase(river);
  schema2.UpdateState();

  Print(schema1, "operand 1");
  Print(schema2, "operand 2");
  Check(schema2.GetParse(d1).status == ParsingStatus::INCORRECT, "operand 2: D1 mentions erased X2 and is INCORRECT");
  Check(AllMentionsDangling(schema2, d1), "operand 2: the mention in D1 is dangling");

  std::cout << "--- synthesis without equations\n";
  {
    BinarySynthes operation{ schema1, schema2, EquationOptions{} };
    Check(operation.IsCorrectlyDefined(), "synthesis is correctly defined");
    const auto result = operation.Execute();
    Check(result != nullptr, "synthesis executed");
    if (result != nullptr) {
      Print(*result, "result");
      const auto& translation = operation.Translations().at(1);
      const auto imageD1 = translation(d1);
      const auto imageT1 = translation(t1);
      Check(result->GetParse(imageD1).status != ParsingStatus::VERIFIED,
            "image of D1 is still INCORRECT (its X2 never existed in the result)");
      Check(AllMentionsDangling(*result, imageD1),
            "dangling mention of D1 does not resolve to a constituent of operand 1");
      Check(AllReferencesDangling(*result, imageT1),
            "dangling text reference of T1 does not resolve to a constituent of operand 1");
      Check(result->GetText(imageT1).term.Nominal().find("owner") == std::string::npos,
            "term of T1 does not name the 'owner' of operand 1");
    }
  }

  std::cout << "--- synthesis with X2(owner) of operand 1 = X1(city) of operand 2\n";
  {
    BinarySynthes operation{ schema1, schema2, EquationOptions{ owner, city } };
    Check(operation.IsCorrectlyDefined(), "synthesis is correctly defined");
    const auto result = operation.Execute();
    Check(result != nullptr, "synthesis executed");
    if (result != nullptr) {
      Print(*result, "result");
      const auto imageD1 = operation.Translations().at(1)(d1);
      Check(result->GetParse(imageD1).status != ParsingStatus::VERIFIED, "image of D1 is still INCORRECT");
      Check(AllMentionsDangling(*result, imageD1), "dangling mention of D1 was not rewritten to the equated set");
    }
  }

  std::cout << "--- RSForm::Ops().MergeWith\n";
  {
    RSForm merged{ schema1 };
    const auto translation = merged.Ops().MergeWith(schema2);
    merged.UpdateState();
    Print(merged, "result");
    Check(merged.GetParse(translation(d1)).status != ParsingStatus::VERIFIED, "image of D1 is still INCORRECT");
    Check(AllMentionsDangling(merged, translation(d1)), "dangling mention of D1 does not resolve");
    // Note: a resolved mention is still renamed together with its constituent
    Check(merged.GetRS(translation(t1)).definition
          == merged.GetRS(translation(city)).alias + "=" + merged.GetRS(translation(city)).alias,
          "resolved mentions follow the renamed copy");
  }

  std::cout << "--- copy inside one schema keeps the mentions of constituents that are not copied\n";
  {
    RSForm schema{ schema1 };
    const auto d = schema.Emplace(CstType::term, "X1\\X1");
    const auto copies = schema.InsertCopy(ccl::VectorOfEntities{ d }, schema.Core());
    Check(schema.GetRS(copies.at(0)).definition == "X1\\X1", "copy of D1 still mentions X1");
  }

  std::cout << (failures == 0 ? "PASS" : "FAIL") << "\n";
  return failures == 0 ? 0 : 1;
}
