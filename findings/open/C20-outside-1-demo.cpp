// OpRelativation on a schema whose (verified) function definition starts with
// whitespace before the argument section "[...]".
// Expected: the function is relativised like the same definition without the
// leading whitespace and stays well-formed.
// Observed (unmodified): "[__base1∈ℬ(X1), ][a∈ℬ(__base1)] a\__base1" - the
// argument section is not found, an empty argument list is spliced in and the
// first character of the definition is dropped; the result no longer parses.
#include "ccl/ops/RSOperations.h"
#include "ccl/rslang/Literals.h"
#include "ccl/semantic/RSForm.h"

#include <iostream>
#include <string>

using ccl::rslang::operator""_rs;
using ccl::semantic::CstType;
using ccl::semantic::ParsingStatus;

int main() {
  const auto expected = R"([__base1 \in B(X1), a \in B(__base1)] a \setminus __base1)"_rs;
  int fails = 0;
  for (const std::string lead : { "", " ", "\t", "\n", " \n " }) {
    ccl::semantic::RSForm schema{};
    const auto x1 = schema.Emplace(CstType::base);
    const auto x2 = schema.Emplace(CstType::base);
    const auto s1 = schema.Emplace(CstType::structured, "B(X1*X2)"_rs);
    const auto f1 = schema.Emplace(CstType::function, lead + R"([a \in B(X1)] a \setminus X1)"_rs);
    if (schema.GetParse(f1).status != ParsingStatus::VERIFIED) {
      std::cout << "setup: source function is not verified\n";
      return 2;
    }
    const auto result = ccl::ops::OpRelativation(schema, x1, { s1, x2 }).Execute();
    if (result == nullptr) {
      std::cout << "setup: relativation refused\n";
      return 2;
    }
    const auto& definition = result->GetRS(f1).definition;
    const auto status = result->GetParse(f1).status;
    const bool ok = status == ParsingStatus::VERIFIED && definition == expected;
    std::cout << (ok ? "ok   " : "BAD  ") << "lead bytes=" << lead.size()
      << " result='" << definition << "' verified=" << (status == ParsingStatus::VERIFIED) << "\n";
    if (!ok) {
      ++fails;
    }
  }
  std::cout << (fails == 0 ? "PASS" : "FAIL") << "\n";
  return fails == 0 ? 0 : 1;
}
