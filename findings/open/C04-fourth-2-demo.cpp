// C04 finding 2: ValueAuditor checks a call with a non-value argument by recursing into the definition of the
// term-function (RunCheckOnFunc) - the recursion follows the chain of calls without any bound.
//   schema: X1,  F1:==[a in BB(X1)] a U (a U ( ... (a U a)))            (nested 900 deep, allowed: limit is 1000)
//               Fk:==[a in BB(X1)] a U (a U ( ... (a U F(k-1)[a])))     k = 2..400
//   every constituent is accepted (typification BB(X1), nothing is nested deeper than the parser allows)
//   CheckExpression("F400[B(X1)]"): the argument is a property (not a value), so the value check walks
//   F400 -> F399 -> ... -> F1, 400 * 900 nested visits -> stack overflow (SIGSEGV)
// Expected: the call returns normally; it either gives the value class or reports failure with a critical error.
#include "ccl/api/RSFormJA.h"
#include "ccl/tools/JSON.h"

#include <iostream>
#include <string>
#include <sys/wait.h>
#include <unistd.h>

using ccl::api::RSFormJA;
using JSON = nlohmann::ordered_json;

static const std::string B = "\xE2\x84\xAC";      // boolean
static const std::string IN = "\xE2\x88\x88";     // element-of
static const std::string UNION = "\xE2\x88\xAA";  // union

static std::string Item(int uid, const std::string& type, const std::string& alias, const std::string& def) {
  return "{\"entityUID\":" + std::to_string(uid) + ",\"cstType\":\"" + type + "\",\"alias\":\"" + alias +
    "\",\"definition\":{\"formal\":\"" + def + "\"}}";
}

static int Verdict(const std::string& checkResult) {
  const auto result = JSON::parse(checkResult);
  const bool success = result.at("parseResult").get<bool>() && result.at("valueClass").get<std::string>() != "invalid";
  bool critical = false;
  for (const auto& error : result.at("errors")) {
    critical = critical || error.at("isCritical").get<bool>();
  }
  std::cout << "    typification=" << result.at("typification") << " valueClass=" << result.at("valueClass")
    << " criticalErrors=" << critical << std::endl;
  return success != critical ? 0 : 3;
}

static int Scenario() {
  static constexpr int count = 400;
  static constexpr int depth = 900;
  std::string json = "{\"items\":[" + Item(1, "basic", "X1", "");
  for (int i = 1; i <= count; ++i) {
    std::string def = "[a" + IN + B + B + "(X1)] ";
    for (int d = 0; d < depth; ++d) {
      def += "a" + UNION + "(";
    }
    def += "a" + UNION + (i == 1 ? std::string("a") : "F" + std::to_string(i - 1) + "[a]");
    for (int d = 0; d < depth; ++d) {
      def += ")";
    }
    json += "," + Item(i + 1, "function", "F" + std::to_string(i), def);
  }
  json += "]}";
  auto schema = RSFormJA::FromJSON(json);
  const auto loaded = JSON::parse(schema.ToJSON());
  int verified = 0;
  for (const auto& item : loaded.at("items")) {
    verified += item.at("parse").at("status").get<std::string>() == "verified" ? 1 : 0;
  }
  std::cout << "    schema loaded: " << verified << " of " << loaded.at("items").size() << " constituents are verified" << std::endl;

  const auto name = "F" + std::to_string(count);
  std::cout << "  " << name << "[X1] (ill-typed, for reference)" << std::endl;
  auto code = Verdict(schema.CheckExpression(name + "[X1]"));
  std::cout << "  F3[" << B << "(X1)] (short chain)" << std::endl;
  code = std::max(code, Verdict(schema.CheckExpression("F3[" + B + "(X1)]")));
  std::cout << "  " << name << "[" << B << "(X1)] (long chain)" << std::endl;
  code = std::max(code, Verdict(schema.CheckExpression(name + "[" + B + "(X1)]")));
  return code;
}

int main() {
  const auto pid = fork();
  if (pid == 0) {
    alarm(600);
    int code = 4;
    try {
      code = Scenario();
    } catch (const std::exception& e) {
      std::cout << "    exception: " << e.what() << std::endl;
    }
    _exit(code);
  }
  int status = 0;
  waitpid(pid, &status, 0);
  bool ok = WIFEXITED(status) && WEXITSTATUS(status) == 0;
  if (WIFSIGNALED(status)) {
    std::cout << "    killed by signal " << WTERMSIG(status) << (WTERMSIG(status) == SIGSEGV ? " (SIGSEGV)" : "") << std::endl;
  }
  std::cout << (ok ? "PASS" : "FAIL") << std::endl;
  return ok ? 0 : 1;
}
