// C01-1: substitution of term-functions multiplies the syntax tree without any bound.
// A well-typed expression of ~260 characters makes Interpreter::Evaluate allocate until memory is exhausted
// (std::bad_alloc escapes / process is killed) or run practically forever, instead of returning the value
// or failing with a documented resource-limit error.
//
// build: g++ -std=c++20 -O0 -w -DNDEBUG $(cat <lib>/inc.txt) demo.cpp <lib>/libccl.a -o demo
#include "ccl/rslang/Interpreter.h"
#include "ccl/rslang/TypeAuditor.h"
#include "ccl/rslang/Parser.h"
#include "ccl/rslang/Literals.h"

#include <sys/resource.h>
#include <unistd.h>
#include <csignal>
#include <cstdio>
#include <cstdlib>
#include <iostream>
#include <new>
#include <unordered_map>

using namespace ccl::rslang;
using ccl::object::StructuredData;
using ccl::object::Factory;

struct Env final : TypeContext {
  struct El {
    std::optional<ExpressionType> type{};
    std::optional<FunctionArguments> args{};
    std::optional<SyntaxTree> ast{};
    std::optional<StructuredData> obj{};
  };
  std::unordered_map<std::string, El> data{};

  const ExpressionType* TypeFor(const std::string& n) const final {
    auto it = data.find(n); return (it == data.end() || !it->second.type) ? nullptr : &*it->second.type;
  }
  const FunctionArguments* FunctionArgsFor(const std::string& n) const final {
    auto it = data.find(n); return (it == data.end() || !it->second.args) ? nullptr : &*it->second.args;
  }
  std::optional<TypeTraits> TraitsFor(const Typification& t) const final {
    if (!t.IsElement()) return std::nullopt;
    if (t == Typification::Integer()) return TraitsIntegral;
    return TraitsNominal;
  }
  DataContext DC() {
    return [this](const std::string& n) -> std::optional<StructuredData> {
      auto it = data.find(n); if (it == data.end()) return std::nullopt; return it->second.obj;
    };
  }
  SyntaxTreeContext AC() {
    return [this](const std::string& n) -> const SyntaxTree* {
      auto it = data.find(n); return (it == data.end() || !it->second.ast) ? nullptr : &*it->second.ast;
    };
  }
  // Registers a term-function the way a schema does: parse, type-check, keep type, arguments and tree
  bool Func(const std::string& name, const std::string& definition) {
    Parser parser{};
    if (!parser.Parse(definition, Syntax::ASCII)) return false;
    TypeAuditor auditor{ *this, parser.log.SendReporter() };
    if (!auditor.CheckType(parser.AST())) return false;
    data[name].type = auditor.GetType();
    data[name].args = auditor.GetDeclarationArgs();
    data[name].ast = parser.AST();
    return true;
  }
};

static void OnAlarm(int) {
  static const char msg[] = "FAIL: evaluation did not finish in 300 s (unbounded growth of the normalized tree)\n";
  (void)!write(1, msg, sizeof(msg) - 1);
  _exit(1);
}

static std::string Nested(const std::string& func, const int depth) {
  std::string expr = "X1";
  for (int i = 0; i < depth; ++i) {
    expr = func + "[" + expr + "]";
  }
  return expr;
}

// Returns true if evaluation ended the way the property allows: the right value or a reported error
static bool Check(Interpreter& interpreter, const std::string& title, const std::string& expr, const StructuredData& expected) {
  try {
    const auto result = interpreter.Evaluate(expr, Syntax::ASCII);
    if (result.has_value()) {
      const auto ok = std::holds_alternative<StructuredData>(result.value()) && std::get<StructuredData>(result.value()) == expected;
      std::cout << title << ": value " << (ok ? "is correct" : "IS WRONG") << std::endl;
      return ok;
    }
    const auto hasError = !std::empty(interpreter.Errors().All());
    std::cout << title << ": refused, errors reported: " << std::size(interpreter.Errors().All()) << std::endl;
    return hasError;
  } catch (const std::bad_alloc&) {
    std::cout << title << ": std::bad_alloc escaped from Interpreter::Evaluate" << std::endl;
    return false;
  }
}

int main() {
  // Keep the machine alive: 640 MB of address space, 300 s of time
  rlimit memory{ 640UL << 20U, 640UL << 20U };
  setrlimit(RLIMIT_AS, &memory);
  signal(SIGALRM, OnAlarm);
  alarm(300);

  Env env{};
  env.data["X1"].type = Typification("X1").Bool();
  env.data["X1"].obj = Factory::SetV({ 1, 2, 3 });
  bool ok = env.Func("F1", R"(F1 \defexpr [a \in B(X1)] a \union a)");
  // F2 .. F60: every function passes its argument twice to the previous one
  for (int i = 2; i <= 60 && ok; ++i) {
    const auto name = "F" + std::to_string(i);
    const auto prev = "F" + std::to_string(i - 1);
    ok = env.Func(name, name + R"( \defexpr [a \in B(X1)] )" + prev + R"([a \union a])");
  }
  if (!ok) {
    std::cout << "setup failed" << std::endl;
    return 2;
  }
  Interpreter interpreter{ env, env.AC(), env.DC() };
  const auto x1 = Factory::SetV({ 1, 2, 3 });

  auto pass = true;
  // sanity: moderate nesting is evaluated (a repair should not refuse ordinary expressions)
  pass = Check(interpreter, "F1 nested 8 times  ", Nested("F1", 8), x1) && pass;
  {
    const auto result = interpreter.Evaluate(Nested("F1", 8), Syntax::ASCII);
    pass = pass && result.has_value();
  }
  pass = Check(interpreter, "F5[X1]             ", "F5[X1]", x1) && pass;
  {
    const auto result = interpreter.Evaluate("F5[X1]", Syntax::ASCII);
    pass = pass && result.has_value();
  }
  // 1) 64 nested calls of F1: 258 characters, the tree after substitution has 2^65 nodes
  pass = Check(interpreter, "F1 nested 64 times ", Nested("F1", 64), x1) && pass;
  // 2) F60[X1]: 7 characters, the argument doubles on every level of the definitions
  pass = Check(interpreter, "F60[X1]            ", "F60[X1]", x1) && pass;

  std::cout << (pass ? "PASS" : "FAIL") << std::endl;
  return pass ? 0 : 1;
}
