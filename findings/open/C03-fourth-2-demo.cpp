// C03 finding 2: the lexer decides from the NAME whether a call is a term-function call (F..., a set
// expression) or a predicate call (P..., a logical expression); the type comes from the context.
// TypeAuditor::ViFunctionCall does not reconcile the two:
//   - a call F1[..] whose function is typed LOGIC, used as an operand, makes CheckType throw
//     std::bad_variant_access (every rule reads the operand with std::get<Typification>);
//   - a call P2[..] whose function is typed as a set is accepted as an operand of a logical connective.
#include "ccl/semantic/Schema.h"
#include "ccl/semantic/SchemaAuditor.h"

#include <iostream>
#include <string>

using ccl::semantic::Schema;
using ccl::semantic::CstType;
using ccl::semantic::ParsingStatus;

static int failures = 0;

// Expression has no type: expect a refusal with a critical error positioned inside the expression
static void ExpectRejected(const Schema& schema, const std::string& expr, const ccl::StrPos length) {
  std::cout << "  " << expr << "  ->  ";
  try {
    auto auditor = schema.MakeAuditor();
    const bool accepted = auditor->CheckExpression(expr, ccl::rslang::Syntax::MATH);
    bool hasCritical = false;
    for (const auto& error : auditor->Errors().All()) {
      hasCritical = hasCritical || (error.IsCritical() && error.position >= 0 && error.position < length);
    }
    if (accepted) {
      std::cout << "ACCEPTED";
      const auto& type = auditor->GetType();
      std::cout << " as " << (std::holds_alternative<ccl::rslang::LogicT>(type) ? std::string{ "LOGIC" }
        : std::get<ccl::rslang::Typification>(type).ToString()) << "   BAD\n";
      ++failures;
    } else if (!hasCritical) {
      std::cout << "rejected without a critical error inside the expression   BAD\n";
      ++failures;
    } else {
      std::cout << "rejected, error 0x" << std::hex << auditor->Errors().All().front().eid << std::dec
        << " at " << auditor->Errors().All().front().position << "   ok\n";
    }
  } catch (const std::exception& e) {
    std::cout << "EXCEPTION " << e.what() << "   BAD\n";
    ++failures;
  }
}

int main() {
  Schema schema{};
  schema.Emplace(1, "X1", CstType::base);
  // Schema does not tie the alias to the kind of a constituent (only RSCore's name generator does)
  schema.Emplace(2, "F1", CstType::predicate, "[α∈X1] α=α");   // logical, but spelled like a term-function
  schema.Emplace(3, "P2", CstType::function, "[α∈X1] {α}");    // a set, but spelled like a predicate
  for (const ccl::EntityUID uid : { 2U, 3U }) {
    const bool verified = schema.InfoFor(uid).status == ParsingStatus::VERIFIED;
    std::cout << schema.At(uid).alias << " := " << schema.At(uid).definition << (verified ? "   VERIFIED\n" : "   INCORRECT\n");
  }

  std::cout << "term-function call typed LOGIC used as an operand:\n";
  ExpectRejected(schema, "∀α∈X1 F1[α]=1", 13);
  ExpectRejected(schema, "∀α∈X1 {F1[α]}=X1", 16);
  ExpectRejected(schema, "∀α∈X1 (F1[α],1)=α", 17);
  ExpectRejected(schema, "∀α∈X1 F1[α]+1=1", 15);
  ExpectRejected(schema, "∀α∈X1 pr1(F1[α])=1", 18);
  ExpectRejected(schema, "∀α∈X1 R{ξ:=F1[α] | ξ}=1", 23);
  std::cout << "predicate call typed as a set used as a logical operand:\n";
  ExpectRejected(schema, "∀α∈X1 (P2[α] & 1=1)", 19);
  ExpectRejected(schema, "∀α∈X1 ¬P2[α]", 12);

  std::cout << (failures == 0 ? "PASS" : "FAIL") << "\n";
  return failures == 0 ? 0 : 1;
}
