// C04-2: Interpreter::Evaluate has limits for iteration (MAX_ITERATIONS = 100000), for the base of a boolean
// (BOOL_INFINITY) and for the size of a product (SET_INFINITY), but set operations that go through all elements of
// a lazily stored boolean / product (union, intersection, difference, projection, reduce, filter, equality, subset)
// are not limited: ℬ(X1)∪ℬ(X1) with a 24-element X1 starts to materialise 2^24 elements (about 850 bytes each).
// The call does not return in any reasonable time and ends in std::bad_alloc (or the OOM killer).
// Each expression is evaluated in a child process with a 300 MB address space limit and a 60 s alarm.
#include "ccl/semantic/RSModel.h"
#include "ccl/rslang/Interpreter.h"

#include <iostream>
#include <string>
#include <vector>
#include <csignal>
#include <new>
#include <sys/wait.h>
#include <sys/resource.h>
#include <unistd.h>

using namespace ccl;
using semantic::CstType;

enum Outcome : int { VALUE = 0, ERROR_REPORTED = 1, SILENT_FAILURE = 2, BAD_ALLOC = 3, OTHER_EXCEPTION = 4 };

static int EvaluateInChild(const std::string& expression, const int baseSize) {
  std::cout.flush();
  const pid_t pid = fork();
  if (pid == 0) {
    rlimit memory{ 300UL << 20U, 300UL << 20U };
    setrlimit(RLIMIT_AS, &memory);
    alarm(60);
    int rc = OTHER_EXCEPTION;
    try {
      semantic::RSModel model{};
      const auto x1 = model.Emplace(CstType::base);
      semantic::TextInterpretation elements{};
      for (int i = 0; i < baseSize; ++i) {
        elements.PushBack("e" + std::to_string(i));
      }
      model.Values().SetBasicText(x1, elements);
      rslang::Interpreter interpreter{
        model.Core().RSLang(), model.Core().RSLang().ASTContext(), model.Calculations().Context()
      };
      const auto value = interpreter.Evaluate(expression, rslang::Syntax::MATH);
      if (value.has_value()) {
        rc = VALUE;
      } else {
        rc = interpreter.Errors().HasCriticalErrors() ? ERROR_REPORTED : SILENT_FAILURE;
      }
    } catch (const std::bad_alloc&) {
      rc = BAD_ALLOC;
    } catch (...) {
      rc = OTHER_EXCEPTION;
    }
    _exit(rc);
  }
  int status = 0;
  waitpid(pid, &status, 0);
  if (WIFSIGNALED(status)) {
    return 100 + WTERMSIG(status);
  }
  return WEXITSTATUS(status);
}

static std::string Describe(const int outcome) {
  switch (outcome) {
  case VALUE: return "value";
  case ERROR_REPORTED: return "failure with a critical error";
  case SILENT_FAILURE: return "failure WITHOUT error";
  case BAD_ALLOC: return "std::bad_alloc thrown out of Evaluate";
  case OTHER_EXCEPTION: return "exception thrown out of Evaluate";
  case 100 + SIGALRM: return "no result after 60 s (killed by alarm)";
  case 100 + SIGKILL: return "killed (out of memory)";
  case 100 + SIGSEGV: return "SIGSEGV";
  case 100 + SIGABRT: return "abort";
  default: return "code " + std::to_string(outcome);
  }
}

int main() {
  constexpr int baseSize = 24; // |ℬ(X1)| = 2^24 = 16777216 < SET_INFINITY, base < BOOL_INFINITY
  const std::vector<std::string> expressions{
    "card(ℬ(X1)∪ℬ(X1))",
    "card(ℬ(X1)\\{∅})",
    "card(Pr1(ℬ(X1)×{1}))",
    "card(red(ℬ(X1)))",
    "ℬ(X1)={X1}∪(ℬ(X1)\\{X1})",
  };
  bool failed = false;
  for (const auto& expression : expressions) {
    const auto outcome = EvaluateInChild(expression, baseSize);
    std::cout << expression << " : " << Describe(outcome) << std::endl;
    failed = failed || (outcome != VALUE && outcome != ERROR_REPORTED);
  }
  // operations that do not go through a huge set are still evaluated
  for (const auto& expression : { "card(ℬ(X1))", "X1∈ℬ(X1)", "{X1}⊆ℬ(X1)", "card({X1}\\ℬ(X1))", "card(ℬ(X1)∩{X1, ∅})", "card(ℬ(X1)×{1})" }) {
    const auto outcome = EvaluateInChild(expression, baseSize);
    std::cout << expression << " : " << Describe(outcome) << std::endl;
    failed = failed || outcome != VALUE;
  }
  std::cout << (failed ? "FAIL" : "PASS") << std::endl;
  return failed ? 1 : 0;
}
