// C12-1: an equation table that closes a loop of term references is accepted
// (sibling of the RS dependency loop that RSEquationProcessor::CreatesDependencyLoop refuses)
#include "ccl/semantic/RSForm.h"
#include "ccl/semantic/rsOperationFacet.h"
#include "ccl/ops/RSOperations.h"
#include "ccl/ops/EquationOptions.h"
#include <iostream>

using ccl::semantic::RSForm;
using ccl::semantic::CstType;
using ccl::ops::EquationOptions;
using ccl::ops::Equation;
using ccl::ops::BinarySynthes;

static int failures = 0;

static void Report(const char* name, const RSForm& before, const RSForm& after, bool accepted) {
  const auto loopBefore = before.Texts().TermGraph().HasLoop();
  const auto loopAfter = after.Texts().TermGraph().HasLoop();
  std::cout << name << ": accepted=" << accepted << " termLoopBefore=" << loopBefore << " termLoopAfter=" << loopAfter << "\n";
  if (accepted) {
    for (const auto uid : after.List()) {
      std::cout << "    " << after.GetRS(uid).alias << " term raw=[" << after.GetText(uid).term.Text().Raw()
        << "] resolved=[" << after.GetText(uid).term.Nominal() << "]\n";
    }
  }
  if (!loopBefore && loopAfter) {
    std::cout << "  -> table was accepted and left terms that refer to each other in a loop\n";
    ++failures;
  }
}

int main() {
  { // A: one schema, two pairs, default mode; each pair alone is admissible
    RSForm schema{};
    const auto x1 = schema.Emplace(CstType::base);
    const auto d1 = schema.Emplace(CstType::term, "X1\\X1");
    const auto d2 = schema.Emplace(CstType::term, "X1\\X1");
    const auto d3 = schema.Emplace(CstType::term, "X1\\X1");
    const auto d4 = schema.Emplace(CstType::term, "X1\\X1");
    schema.SetTermFor(x1, "base");
    schema.SetTermFor(d1, "one");
    schema.SetTermFor(d2, "two of @{D3|sing,nomn}");
    schema.SetTermFor(d3, "three");
    schema.SetTermFor(d4, "four of @{D1|sing,nomn}");
    const RSForm before{ schema };
    EquationOptions table{};
    table.Insert(d1, d2);
    table.Insert(d3, d4);
    const auto accepted = schema.Ops().Equate(table).has_value();
    Report("A (D1->D2, D3->D4 in one schema)", before, schema, accepted);
  }
  { // B: one pair, the term of the removed constituent is kept and mentions the replacement
    RSForm schema{};
    const auto x1 = schema.Emplace(CstType::base);
    const auto d1 = schema.Emplace(CstType::term, "X1\\X1");
    const auto d2 = schema.Emplace(CstType::term, "X1\\X1");
    schema.SetTermFor(d1, "one");
    schema.SetTermFor(d2, "part of @{D1|sing,nomn}");
    const RSForm before{ schema };
    const auto accepted = schema.Ops().Equate(EquationOptions{ d2, d1, Equation{ Equation::Mode::keepDel, "" } }).has_value();
    Report("B (D2->D1 keepDel)", before, schema, accepted);
  }
  { // C: synthesis of two correct schemas, like with like
    RSForm ks1{};
    const auto x1_1 = ks1.Emplace(CstType::base);
    const auto da = ks1.Emplace(CstType::term, "X1\\X1");
    const auto db = ks1.Emplace(CstType::term, "X1\\X1");
    ks1.SetTermFor(x1_1, "base");
    ks1.SetTermFor(da, "a");
    ks1.SetTermFor(db, "b of @{D1|sing,nomn}");
    RSForm ks2{};
    const auto x1_2 = ks2.Emplace(CstType::base);
    const auto dc = ks2.Emplace(CstType::term, "X1\\X1");
    const auto dd = ks2.Emplace(CstType::term, "X1\\X1");
    ks2.SetTermFor(x1_2, "base");
    ks2.SetTermFor(dc, "c of @{D2|sing,nomn}");
    ks2.SetTermFor(dd, "d");
    EquationOptions table{};
    table.Insert(x1_1, x1_2);
    table.Insert(da, dc);
    table.Insert(db, dd, Equation{ Equation::Mode::keepDel, "" });
    BinarySynthes synthes{ ks1, ks2, table };
    const auto accepted = synthes.IsCorrectlyDefined();
    if (accepted) {
      const auto result = synthes.Execute();
      Report("C (synthesis Da->Dc, Db->Dd keepDel)", ks1, *result, true);
    } else {
      Report("C (synthesis Da->Dc, Db->Dd keepDel)", ks1, ks1, false);
    }
  }
  { // control: an admissible table with term references is still accepted
    RSForm schema{};
    const auto x1 = schema.Emplace(CstType::base);
    const auto d1 = schema.Emplace(CstType::term, "X1\\X1");
    const auto d2 = schema.Emplace(CstType::term, "X1\\X1");
    const auto d3 = schema.Emplace(CstType::term, "X1\\X1");
    schema.SetTermFor(d1, "one");
    schema.SetTermFor(d2, "two");
    schema.SetTermFor(d3, "three of @{D1|sing,nomn}");
    const auto accepted = schema.Ops().Equate(EquationOptions{ d1, d2 }).has_value();
    std::cout << "control: accepted=" << accepted << " D3 term=[" << (schema.Contains(d3) ? schema.GetText(d3).term.Nominal() : "") << "]\n";
    if (!accepted || schema.GetText(d3).term.Nominal() != "three of two") {
      std::cout << "  -> admissible table refused or mistranslated\n";
      ++failures;
    }
  }
  std::cout << (failures == 0 ? "PASS" : "FAIL") << "\n";
  return failures == 0 ? 0 : 1;
}
