// C08-1: merging a previous version into a new one (RSAggregator::Merge / ExtrapolateFromPrevious)
// rewrites ordinary words of the CONVENTION (free text) of a transferred constituent into "<word>_ERROR".
#include "ccl/semantic/RSForm.h"
#include "ccl/ops/RSAggregator.h"
#include <iostream>

using ccl::semantic::RSForm;
using ccl::semantic::CstType;

int main() {
  // previous version: inherited X1 (tracked) + a constituent added by the user with a convention
  RSForm previous{};
  const auto x1 = previous.Emplace(CstType::base);
  previous.Mods().Track(x1);

  // new version of the inherited part: X1 was renamed to X3
  RSForm next = previous;
  next.SetAliasFor(x1, "X3");

  const auto d1 = previous.Emplace(CstType::term, "X1\xE2\x88\xAAX1");        // D1 := X1 ∪ X1
  previous.SetConventionFor(d1, "The Set X1 of all Things, see Kuratowski");

  // inherited part: uid of X1 in the previous version -> uid of X3 in the new one (alias X1 -> X3)
  ccl::EntityTranslation inherited{};
  inherited.Insert(x1, x1);
  const auto result = next.Ops().ExtrapolateFromPrevious(previous, inherited);
  if (!result.has_value() || !result->ContainsKey(d1)) {
    std::cout << "FAIL: merge refused\n";
    return 1;
  }
  const auto& merged = next.GetRS((*result)(d1));
  const std::string expected = "The Set X3 of all Things, see Kuratowski";
  std::cout << "definition : " << merged.definition << "\n";
  std::cout << "convention : " << merged.convention << "\n";
  std::cout << "expected   : " << expected << "\n";
  if (merged.definition != "X3\xE2\x88\xAAX3" || merged.convention != expected) {
    std::cout << "FAIL\n";
    return 1;
  }
  std::cout << "PASS\n";
  return 0;
}
