// C17-2: in the legacy spelling "@{entity|tag|tag[|index]}" the person grammemes 1per/2per/3per
// are mistaken for the trailing numeric index and silently dropped (or make the reference invalid)
#include "ccl/lang/RefsManager.h"
#include "ccl/lang/LexicalTerm.h"
#include "ccl/lang/ManagedText.h"
#include "ccl/lang/TextEnvironment.h"
#include "ccl/lang/EntityTermContext.hpp"
#include <iostream>

using namespace ccl;
using namespace ccl::lang;

class Ctx : public EntityTermContext {
public:
  std::unordered_map<std::string, LexicalTerm> terms;
  bool Contains(const std::string& e) const override { return terms.contains(e); }
  const LexicalTerm* At(const std::string& e) const override {
    auto it = terms.find(e); return it == terms.end() ? nullptr : &it->second;
  }
};

// Inflection that makes the requested form visible in the resolution
class Proc : public TextProcessor {
public:
  std::string Inflect(const std::string& target, const Morphology& form) const override {
    return target + "[" + form.ToString() + "]";
  }
};

int failures = 0;
void Check(bool cond, const std::string& what) {
  std::cout << (cond ? "  ok   " : "  BAD  ") << what << "\n";
  if (!cond) ++failures;
}

int main() {
  TextEnvironment::SetProcessor(std::make_unique<Proc>());
  Ctx ctx;
  ctx.terms.emplace("X1", LexicalTerm{ "run" });

  const Morphology expected{ Grammem::sing, Grammem::per3 };

  // reference spellings that must all denote entity X1 in form {3per, sing}
  const auto modern = Reference::Parse("@{X1|sing,3per}");
  Check(modern.IsValid() && modern.GetForm() == expected, "modern  @{X1|sing,3per}   -> {3per,sing}");

  const auto legacyOther = Reference::Parse("@{X1|3per|sing}");
  Check(legacyOther.IsValid() && legacyOther.GetForm() == expected, "legacy  @{X1|3per|sing}   -> {3per,sing}");

  const auto legacyIdx = Reference::Parse("@{X1|sing|3per|0}");
  Check(legacyIdx.IsValid() && legacyIdx.GetForm() == expected, "legacy  @{X1|sing|3per|0} -> {3per,sing}");

  const auto legacy = Reference::Parse("@{X1|sing|3per}");
  std::cout << "  @{X1|sing|3per} parsed as " << (legacy.IsValid() ? legacy.ToString() : std::string{ "<invalid>" }) << "\n";
  Check(legacy.IsValid() && legacy.GetForm() == expected, "legacy  @{X1|sing|3per}   -> {3per,sing}");

  const auto legacy2 = Reference::Parse("@{X1|VERB|pres|1per}");
  std::cout << "  @{X1|VERB|pres|1per} parsed as " << (legacy2.IsValid() ? legacy2.ToString() : std::string{ "<invalid>" }) << "\n";
  Check(legacy2.IsValid() && legacy2.GetForm() == Morphology{ Grammem::VERB, Grammem::pres, Grammem::per1 },
        "legacy  @{X1|VERB|pres|1per} -> {VERB,pres,1per}");

  // a well-formed legacy reference whose only grammeme is a person is not found at all
  const auto refs = Reference::ExtractAll("he @{X1|UNKN|2per} fast");
  Check(refs.size() == 1 && refs[0].GetForm() == Morphology{ Grammem::per2 }, "ExtractAll finds @{X1|UNKN|2per} with form {2per}");
  Check(ManagedText{ "he @{X1|UNKN|2per} fast" }.Referals() == std::unordered_set<std::string>{ "X1" }, "Referals of it == {X1}");

  // resolution and write-back
  RefsManager mgr{ ctx };
  const std::string text = "he @{X1|sing|3per} fast";
  const auto resolved = mgr.Resolve(text);
  std::cout << "  resolved: " << resolved << "\n";
  Check(resolved == "he run[3per,sing] fast", "Resolve inflects X1 with {3per,sing}");
  const auto back = mgr.OutputRefs(resolved);
  std::cout << "  written back: " << back << "\n";
  Check(back == "he @{X1|3per,sing} fast", "OutputRefs writes the canonical spelling @{X1|3per,sing}");

  // renaming persists the loss into the raw text
  ManagedText mt{ text };
  mt.TranslateRaw([](const std::string& s) -> std::optional<std::string> {
    if (s == "X1") return std::string{ "X2" }; return std::nullopt; });
  std::cout << "  after rename: " << mt.Raw() << "\n";
  Check(mt.Raw() == "he @{X2|3per,sing} fast", "TranslateRaw keeps the person grammeme");

  std::cout << (failures == 0 ? "PASS" : "FAIL") << "\n";
  return failures == 0 ? 0 : 1;
}
