// C08 finding 2: RSAggregator::Merge (rsOperationFacet::ExtrapolateFromPrevious) carries user-edited texts of an
// inherited constituent over to the new version of the schema. Term and text definition are translated from the
// previous version's names to the new version's names, the convention is copied verbatim: a mention of X2 in the
// convention is not rewritten to X3 and now names a different constituent.
#include "ccl/semantic/RSForm.h"
#include "ccl/ops/RSAggregator.h"
#include <iostream>

using namespace ccl;
using namespace ccl::semantic;

static int failures = 0;
static void Expect(const std::string& what, const std::string& got, const std::string& expected) {
  const bool ok = got == expected;
  std::cout << (ok ? "  ok   " : "  BAD  ") << what << ": got [" << got << "] expected [" << expected << "]\n";
  if (!ok) ++failures;
}

int main() {
  const TrackingFlags editable{ true, false, false, false };
  // previous version: inherited X1, X2; the user edited all three texts of X1, each mentions X2
  RSForm prev{};
  const auto p1 = prev.Emplace(CstType::base);
  const auto p2 = prev.Emplace(CstType::base);
  prev.Mods().Track(p1, editable);
  prev.Mods().Track(p2, editable);
  prev.SetConventionFor(p1, "\xD1\x81\xD0\xBC. X2 \xE2\x88\x88");
  prev.SetDefinitionFor(p1, "see @{X2|sing,nomn}");
  prev.SetTermFor(p1, "part of @{X2|sing,gent}");

  // new version: the same two constituents but the old X2 is now called X3 (a new X2 appeared before it)
  RSForm out{};
  const auto o1 = out.Emplace(CstType::base);
  const auto o2 = out.Emplace(CstType::base);
  const auto o3 = out.Emplace(CstType::base);
  out.Mods().Track(o1, editable);
  out.Mods().Track(o2, editable);
  out.Mods().Track(o3, editable);

  EntityTranslation oldToNew{};
  oldToNew.Insert(p1, o1);
  oldToNew.Insert(p2, o3);
  if (!ops::RSAggregator(out).Merge(prev, oldToNew).has_value()) {
    std::cout << "FAIL (merge refused)\n";
    return 1;
  }
  Expect("alias of image of old X2", out.GetRS(o3).alias, "X3");
  Expect("term", out.GetText(o1).term.Text().Raw(), "part of @{X3|sing,gent}");
  Expect("text definition", out.GetText(o1).definition.Raw(), "see @{X3|sing,nomn}");
  Expect("convention", out.GetRS(o1).convention, "\xD1\x81\xD0\xBC. X3 \xE2\x88\x88");
  std::cout << (failures == 0 ? "PASS" : "FAIL") << "\n";
  return failures == 0 ? 0 : 1;
}
