// C11 finding 1: an edit that gives a dependant structure a typification over a base that is not a
// constituent (the anonymous base R0 of the empty-set literal) throws out of RSModel::SetExpressionFor
// from the middle of ResetDependants: the definition is already changed, but the structure keeps its
// old data and the dependants that were not reached yet keep their old values as calculated.
#include "ccl/semantic/RSModel.h"

#include <iostream>
#include <vector>

using namespace ccl;
using namespace ccl::semantic;
using ccl::object::Factory;

int main() {
  RSModel model{};
  const auto x1 = model.Emplace(CstType::base);
  const auto d1 = model.Emplace(CstType::term, "X1");
  const auto s1 = model.Emplace(CstType::structured, "ℬ(D1)"); // S1 is typed ℬ(X1) through D1
  std::vector<EntityUID> dependants{};
  for (int i = 0; i < 8; ++i) {
    dependants.push_back(model.Emplace(CstType::term, "D1∪D1"));
  }
  dependants.push_back(model.Emplace(CstType::axiom, "D1=X1"));

  model.Values().AddBasicElement(x1, "a");
  model.Values().AddBasicElement(x1, "b");
  if (!model.Values().SetStructureData(s1, Factory::SetV({ 1, 2 }))) {
    std::cout << "setup failed: structure data refused\n";
    return 2;
  }
  model.Calculations().RecalculateAll();

  bool ok = true;
  try {
    model.SetExpressionFor(d1, "∅"); // legal, well-typed: D1 becomes ℬ(R0), S1 becomes ℬ(R0)
  } catch (const std::exception& e) {
    std::cout << "SetExpressionFor(D1, ∅) threw: " << e.what() << "\n";
    ok = false;
  }
  std::cout << "definition of D1 is now: " << model.GetRS(d1).definition << "\n";

  // Every dependant of D1 must have lost its value
  for (const auto uid : dependants) {
    const auto status = model.Calculations()(uid);
    const bool hasValue = model.Values().SDataFor(uid).has_value() || model.Values().StatementFor(uid).has_value();
    if (model.Calculations().WasCalculated(uid) || hasValue) {
      std::cout << model.GetRS(uid).alias << " still reports a value calculated from the old D1 (status "
                << static_cast<int>(status) << ")\n";
      ok = false;
    }
  }
  // S1 must hold only elements valid for its current typification: nothing is an element of R0
  if (const auto data = model.Values().SDataFor(s1); data.has_value() && data->IsCollection() && !data->B().IsEmpty()) {
    const auto* typif = model.GetParse(s1).Typification();
    std::cout << "S1 typed " << (typif != nullptr ? typif->ToString() : std::string{ "<none>" })
              << " still holds " << data->ToString() << "\n";
    ok = false;
  }

  // The same defect makes SetStructureData throw instead of refusing
  try {
    if (model.Values().SetStructureData(s1, Factory::SetV({ 1 }))) {
      std::cout << "S1 accepted an element of a base that is not a constituent\n";
      ok = false;
    }
  } catch (const std::exception& e) {
    std::cout << "SetStructureData(S1, {1}) threw: " << e.what() << "\n";
    ok = false;
  }

  std::cout << (ok ? "PASS" : "FAIL") << "\n";
  return ok ? 0 : 1;
}
