// C02-2: nesting of the tree is bounded by the parser (MAX_TREE_DEPTH = 1000), but Interpreter::Evaluate substitutes
// definitions of term-functions after the type check, which multiplies nesting: the accepted expression F3[X1], where
// F2 and F3 have definitions nested 200 deep (F3 calls F2 in the argument of F2, 200 times), is normalized into a tree
// nested 40000 deep and the recursive evaluator overflows the stack.
//
// build: g++ -std=c++20 -O0 -w -DNDEBUG $(cat <out>/inc.txt) demo.cpp <out>/libccl.a -o demo
#include "ccl/rslang/Interpreter.h"
#include "ccl/rslang/Parser.h"
#include "ccl/rslang/TypeAuditor.h"
#include "ccl/rslang/StructuredData.h"

#include <sys/wait.h>
#include <unistd.h>
#include <iostream>
#include <unordered_map>

using namespace ccl::rslang;
using ccl::object::StructuredData;
using ccl::object::Factory;

struct Global {
  std::optional<ExpressionType> type{};
  std::optional<FunctionArguments> args{};
  ccl::meta::UniqueCPPtr<SyntaxTree> ast{ nullptr };
  std::optional<StructuredData> data{};
};

struct Env final : TypeContext {
  std::unordered_map<std::string, Global> globals{};

  const ExpressionType* TypeFor(const std::string& n) const final {
    const auto it = globals.find(n);
    return it == globals.end() || !it->second.type.has_value() ? nullptr : &it->second.type.value();
  }
  const FunctionArguments* FunctionArgsFor(const std::string& n) const final {
    const auto it = globals.find(n);
    return it == globals.end() || !it->second.args.has_value() ? nullptr : &it->second.args.value();
  }
  std::optional<TypeTraits> TraitsFor(const Typification& t) const final {
    if (!t.IsElement()) return std::nullopt;
    if (t == Typification::Integer()) return TraitsIntegral;
    return TraitsNominal;
  }
  // Defines a term-function the way a schema does: definition is parsed and type checked, type and arguments are stored
  bool Define(const std::string& name, const std::string& definition) {
    Parser parser{};
    if (!parser.Parse(name + ":==" + definition, Syntax::MATH)) return false;
    TypeAuditor checker{ *this };
    if (!checker.CheckType(parser.AST())) return false;
    globals[name].type = checker.GetType();
    globals[name].args = checker.GetDeclarationArgs();
    globals[name].ast = parser.ExtractAST();
    return true;
  }
};

static std::string Repeat(const std::string& text, const int count) {
  std::string result{};
  for (int i = 0; i < count; ++i) result += text;
  return result;
}

// 0 - fine (refused, reported evaluation error, or value of the reported type), other / signal - defect
static int Scenario(const int nesting) {
  Env env;
  env.globals["X1"].type = Typification("X1").Bool();
  env.globals["X1"].data = Factory::SetV({ 1, 2, 3 });

  // F2 := [a∈ℬ(X1)] (((a∪X1)∪X1)...∪X1)   - nested <nesting> deep, single occurrence of the argument
  // F3 := [a∈ℬ(X1)] F2[F2[...F2[a]...]]      - nested <nesting> deep
  const std::string un = "\xE2\x88\xAA";      // ∪
  const std::string in = "\xE2\x88\x88";      // ∈
  const std::string bl = "\xE2\x84\xAC";      // ℬ
  const auto head = "[a" + in + bl + "(X1)] ";
  if (!env.Define("F2", head + Repeat("(", nesting) + "a" + Repeat(un + "X1)", nesting)) ||
      !env.Define("F3", head + Repeat("F2[", nesting) + "a" + Repeat("]", nesting))) {
    std::cout << "  definitions are refused" << std::endl;
    return 0;
  }

  const std::string expr = "F3[X1]";
  Parser parser{};
  TypeAuditor checker{ env };
  if (!parser.Parse(expr, Syntax::MATH) || !checker.CheckType(parser.AST())) {
    std::cout << "  expression is refused" << std::endl;
    return 0;
  }
  const auto type = checker.GetType();
  std::cout << "  F3[X1] is accepted with type " << std::get<Typification>(type).ToString() << std::endl;

  Interpreter interpreter{ env,
    [&env](const std::string& name) -> const SyntaxTree* {
      const auto it = env.globals.find(name);
      return it == env.globals.end() ? nullptr : it->second.ast.get();
    },
    [&env](const std::string& name) -> std::optional<StructuredData> {
      const auto it = env.globals.find(name);
      return it == env.globals.end() ? std::nullopt : it->second.data;
    } };
  try {
    const auto value = interpreter.Evaluate(expr, Syntax::MATH);
    if (!value.has_value()) {
      auto isReported = false;
      for (const auto& err : interpreter.Errors().All()) {
        if (err.eid == static_cast<uint32_t>(ValueEID::unknownError)) {
          std::cout << "  unknown evaluation error" << std::endl;
          return 2;
        }
        isReported = isReported || err.IsCritical();
      }
      std::cout << "  no value, error is " << (isReported ? "reported" : "NOT reported") << std::endl;
      return isReported ? 0 : 2;
    }
    if (!ccl::object::CheckCompatible(std::get<StructuredData>(value.value()), std::get<Typification>(type))) {
      std::cout << "  value does not have the structure of the reported type" << std::endl;
      return 3;
    }
    std::cout << "  value " << std::get<StructuredData>(value.value()).ToString() << " has the reported structure" << std::endl;
  } catch (const std::exception& e) {
    std::cout << "  exception escaped: " << e.what() << std::endl;
    return 4;
  }
  return 0;
}

static bool RunIsolated(const int nesting) {
  std::cout << "definitions of F2 and F3 nested " << nesting << " deep (parser allows 1000)" << std::endl;
  const auto pid = fork();
  if (pid == 0) {
    _exit(Scenario(nesting));
  }
  int status = 0;
  waitpid(pid, &status, 0);
  if (WIFSIGNALED(status)) {
    std::cout << "  evaluation crashed with signal " << WTERMSIG(status) << std::endl;
    return false;
  }
  return WIFEXITED(status) && WEXITSTATUS(status) == 0;
}

int main() {
  auto ok = true;
  ok = RunIsolated(20) && ok;   // sanity: the same shape with modest nesting evaluates
  ok = RunIsolated(200) && ok;  // normalized tree is nested 40000 deep
  std::cout << (ok ? "PASS" : "FAIL") << std::endl;
  return ok ? 0 : 1;
}
