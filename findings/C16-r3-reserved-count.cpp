// C16 finding 1: a set whose cardinality equals SDCompact::unknownCount (10'000'000)
// is written with its true count, which the decoder then interprets as the
// "unknown count" marker and swallows every remaining row of the table.
#include "ccl/rslang/SDataCompact.h"
#include "ccl/rslang/StructuredData.h"
#include "ccl/rslang/Typification.h"
#include <iostream>

using namespace ccl;
using object::Factory; using object::StructuredData; using object::SDCompact;
using rslang::Typification;

int main() {
  // type  B(X1) x B(X1)
  const auto setT = Typification("X1").Bool();
  const auto type = Typification::Tuple({ setT, setT });

  auto big = Factory::EmptySet();
  {
    auto& s = big.ModifyB();
    for (int32_t i = 1; i <= SDCompact::unknownCount; ++i) {
      s.AddElement(Factory::Val(i));
    }
  }
  const auto value = Factory::Tuple({ big, Factory::SetV({ 1, 2 }) });
  if (!object::CheckCompatible(value, type)) { std::cout << "setup error\n"; return 2; }

  const auto packed = SDCompact::FromSData(value, type).data;
  std::cout << "rows=" << packed.size() << " first count=" << packed.front().front()
            << " last row size=" << packed.back().size() << "\n";
  const auto back = SDCompact::Unpack(packed, type);
  if (!back.has_value()) {
    std::cout << "FAIL: Unpack(FromSData(v,t),t) returned nothing for a compatible value\n";
    return 1;
  }
  if (!(back.value() == value)) {
    std::cout << "FAIL: round trip returned a different value\n";
    return 1;
  }
  std::cout << "PASS\n";
  return 0;
}
