// C03-4: arithmetic and ordering refuse an operand of the "any" type (element of the empty set), although equality,
// membership, card, projections... accept it. The first round of the type deduction of a recursion types the variable by
// its initial value, so a well-typed recursion over integers that starts from {} is refused.
#include "ccl/api/RSFormJA.h"
#include "ccl/rslang/RSGenerator.h"
#include "ccl/tools/JSON.h"
#include <iostream>

using namespace ccl;
using JSON = nlohmann::ordered_json;
using semantic::CstType;

int main() {
  semantic::RSForm schema{};
  schema.Emplace(CstType::base);      // X1
  schema.Emplace(CstType::constant);  // C1
  schema.Emplace(CstType::structured, "C1"); // S1 - element of C1
  auto wrapper = api::RSFormJA::FromData(std::move(schema));

  bool fail = false;
  const auto check = [&](const std::string& expr, const bool expectOK, const std::string& expectType) {
    const auto out = JSON::parse(wrapper.CheckExpression(expr, rslang::Syntax::ASCII));
    const bool ok = out["parseResult"].get<bool>();
    const std::string type = out["typification"].get<std::string>();
    const bool good = ok == expectOK && (!ok || type == expectType);
    std::cout << (good ? "  ok   " : "  BAD  ") << expr << "\n         -> parseResult=" << ok << " type=" << type
      << " errors=" << out["errors"].dump() << "\n";
    fail = fail || !good;
  };

  // controls: typed initial value
  check(R"(R{a \assign {1} \setminus {1} | a \union {1} \union I{x \plus 1 | x \from a; x \ls 3}})", true, "ℬ(Z)");
  check(R"(R{a \assign {1} \setminus {1} | a \union {1} \union D{x \in a | x \ls 3}})", true, "ℬ(Z)");
  // the same recursions from {}: must be accepted with the same type
  check(R"(R{a \assign {} | a \union {1} \union I{x \plus 1 | x \from a; x \ls 3}})", true, "ℬ(Z)");
  check(R"(R{a \assign {} | a \union {1} \union D{x \in a | x \ls 3}})", true, "ℬ(Z)");
  check(R"(R{a \assign {} | a \union {S1} \union I{x \multiply 2 | x \from a}})", true, "ℬ(C1)");
  // plain forms: other operations accept an element of {}, arithmetic and ordering must too
  check(R"(\A x \in {} x \eq 1)", true, "LOGIC");
  check(R"(\A x \in {} card(x) \eq 1)", true, "LOGIC");
  check(R"(\A x \in {} x \ls 1)", true, "LOGIC");
  check(R"(\A x \in {} x \plus 1 \eq 2)", true, "LOGIC");
  // controls: non-arithmetic types are still refused
  check(R"(\A x \in X1 x \ls 1)", false, "");
  check(R"(\A x \in X1 x \plus 1 \eq 2)", false, "");
  check(R"(\A x \in {} x \plus X1 \eq 2)", false, "");

  std::cout << (fail ? "FAIL" : "PASS") << std::endl;
  return fail ? 1 : 0;
}
