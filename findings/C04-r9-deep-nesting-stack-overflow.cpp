// C04-1: deeply nested / very long (but short in bytes: 30-400 KB) expressions overflow the call stack
// (SIGSEGV) in Parser::Parse and everything built on it (ParseExpression, ConvertTo, CheckExpression).
// Every case is run in a forked child so that the crash can be observed; the parent prints the verdict.
#include "ccl/rslang/Parser.h"
#include "ccl/rslang/RSGenerator.h"
#include "ccl/api/RSFormJA.h"
#include "ccl/semantic/RSForm.h"

#include <iostream>
#include <string>
#include <vector>
#include <functional>
#include <csignal>
#include <sys/wait.h>
#include <unistd.h>

using ccl::rslang::Syntax;

static std::string Repeat(const std::string& s, int n) {
  std::string r; r.reserve(s.size() * static_cast<size_t>(n));
  for (int i = 0; i < n; ++i) r += s;
  return r;
}

// returns: 0 = returned normally and faithfully, 1 = returned but unfaithful, >= 100 = killed by signal
static int RunInChild(const std::function<int()>& body) {
  std::cout.flush();
  const pid_t pid = fork();
  if (pid == 0) {
    int rc = 2;
    try { rc = body(); } catch (...) { rc = 3; }
    _exit(rc);
  }
  int status = 0;
  waitpid(pid, &status, 0);
  if (WIFSIGNALED(status)) return 100 + WTERMSIG(status);
  return WEXITSTATUS(status);
}

int main() {
  constexpr int N = 100000;
  struct Case { std::string name; std::string text; Syntax syntax; };
  const std::vector<Case> cases{
    { "negations  ¬¬¬...¬1=1",          Repeat("¬", N) + "1=1", Syntax::MATH },
    // Note: smaller N here only because nested redundant parentheses are processed in quadratic time
    { "parentheses ((((1+1))))",          Repeat("(", N / 4) + "1+1" + Repeat(")", N / 4), Syntax::MATH },
    { "enumerations {{{{1}}}}",           Repeat("{", N) + "1" + Repeat("}", N), Syntax::MATH },
    { "booleans ℬℬℬ...ℬ(X1)",            Repeat("ℬ", N) + "(X1)", Syntax::MATH },
    { "flat sum 1+1+1+...+1",             "1" + Repeat("+1", N), Syntax::MATH },
    { "ascii negations \\neg \\neg ...",  Repeat("\\neg ", N) + "1 \\eq 1", Syntax::ASCII },
    { "unbalanced (((((((",               Repeat("(", N), Syntax::MATH },
  };

  bool failed = false;
  for (const auto& test : cases) {
    const auto parse = RunInChild([&] {
      ccl::rslang::Parser parser{};
      const bool ok = parser.Parse(test.text, test.syntax);
      return ok == parser.Errors().HasCriticalErrors() ? 1 : 0; // failure iff critical error
    });
    const auto json = RunInChild([&] {
      return ccl::api::ParseExpression(test.text, test.syntax).empty() ? 1 : 0;
    });
    const auto convert = RunInChild([&] {
      (void)ccl::rslang::ConvertTo(test.text, test.syntax == Syntax::MATH ? Syntax::ASCII : Syntax::MATH);
      return 0;
    });
    const auto check = RunInChild([&] {
      auto schema = ccl::api::RSFormJA::FromData(ccl::semantic::RSForm{});
      return schema.CheckExpression(test.text, test.syntax).empty() ? 1 : 0;
    });
    std::cout << test.name << " (" << test.text.size() << " bytes): Parse=" << parse
      << " ParseExpression=" << json << " ConvertTo=" << convert << " CheckExpression=" << check << "\n";
    failed = failed || parse != 0 || json != 0 || convert != 0 || check != 0;
  }
  // a moderately nested expression is still accepted
  const auto sane = RunInChild([&] {
    ccl::rslang::Parser parser{};
    return parser.Parse(Repeat("¬", 200) + "1=1", Syntax::MATH)
      && parser.Parse("1" + Repeat("+1", 500), Syntax::MATH)
      && parser.Parse(Repeat("(", 300) + "1+1" + Repeat(")", 300), Syntax::MATH) ? 0 : 1;
  });
  std::cout << "moderate nesting accepted: " << (sane == 0 ? "yes" : "no") << "\n";
  failed = failed || sane != 0;

  std::cout << "(codes: 0 = returned normally, 111 = 100+SIGSEGV)\n";
  std::cout << (failed ? "FAIL" : "PASS") << std::endl;
  return failed ? 1 : 0;
}
