// ---- self-contained mini environment (TypeContext + DataContext + function ASTs) ----
#include "ccl/rslang/Interpreter.h"
#include "ccl/rslang/TypeAuditor.h"
#include "ccl/rslang/Parser.h"
#include "ccl/rslang/StructuredData.h"

#include <iostream>
#include <sstream>
#include <unordered_map>
#include <optional>
#include <unistd.h>
#include <sys/wait.h>

using namespace ccl::rslang;
using ccl::object::StructuredData;
using ccl::object::Factory;

class Env final : public TypeContext {
public:
  struct Element {
    std::optional<ExpressionType> type{};
    std::optional<TypeTraits> traits{};
    std::optional<FunctionArguments> arguments{};
    ccl::meta::UniqueCPPtr<SyntaxTree> ast{ nullptr };
    std::optional<StructuredData> objects{};
  };
  std::unordered_map<std::string, Element> data{};

  void Base(const std::string& name, StructuredData value, TypeTraits traits = TraitsNominal) {
    data[name].type = Typification(name).Bool();
    data[name].traits = traits;
    data[name].objects = std::move(value);
  }
  // Term function / predicate: type and argument list are taken from the library's own checker
  bool Func(const std::string& name, const std::string& definition) {
    Parser parser{};
    if (!parser.Parse(definition, Syntax::MATH)) { return false; }
    TypeAuditor auditor{ *this };
    if (!auditor.CheckType(parser.AST())) { return false; }
    data[name].type = auditor.GetType();
    data[name].arguments = auditor.GetDeclarationArgs();
    data[name].ast = parser.ExtractAST();
    return true;
  }
  const ExpressionType* TypeFor(const std::string& name) const final {
    if (!data.contains(name) || !data.at(name).type.has_value()) return nullptr;
    return &data.at(name).type.value();
  }
  const FunctionArguments* FunctionArgsFor(const std::string& name) const final {
    if (!data.contains(name) || !data.at(name).arguments.has_value()) return nullptr;
    return &data.at(name).arguments.value();
  }
  std::optional<TypeTraits> TraitsFor(const Typification& type) const final {
    if (!type.IsElement()) return std::nullopt;
    if (type == Typification::Integer()) return TraitsIntegral;
    if (!data.contains(type.E().baseID)) return std::nullopt;
    return data.at(type.E().baseID).traits;
  }
  DataContext Data() {
    return [this](const std::string& name) -> std::optional<StructuredData> {
      if (!data.contains(name)) return std::nullopt;
      return data.at(name).objects;
    };
  }
  SyntaxTreeContext AST() {
    return [this](const std::string& name) -> const SyntaxTree* {
      if (!data.contains(name)) return nullptr;
      return data.at(name).ast.get();
    };
  }
};

std::string TypeStr(const ExpressionType& t) {
  return std::holds_alternative<LogicT>(t) ? std::string{"LOGIC"} : std::get<Typification>(t).ToString();
}

// Type-check `expr`, then evaluate it through the public Interpreter.
// Returns a one-line report:  "REJECTED ..." | "VALUE <v> TYPE <t> COMPATIBLE <0/1>" | "NOVALUE errors..." | "EXCEPTION ..."
std::string CheckAndEvaluate(Env& env, const std::string& expr) {
  std::ostringstream out;
  std::optional<ExpressionType> type{};
  {
    Parser parser{};
    if (!parser.Parse(expr, Syntax::MATH)) return "REJECTED by parser";
    TypeAuditor auditor{ env, parser.log.SendReporter() };
    if (!auditor.CheckType(parser.AST())) {
      out << "REJECTED by type checker:";
      for (const auto& e : parser.log.All()) out << " 0x" << std::hex << e.eid;
      return out.str();
    }
    type = auditor.GetType();
  }
  try {
    Interpreter interpreter{ env, env.AST(), env.Data() };
    const auto value = interpreter.Evaluate(expr, Syntax::MATH);
    if (!value.has_value()) {
      out << "NOVALUE type " << TypeStr(*type) << " errors:";
      for (const auto& e : interpreter.Errors().All()) out << " 0x" << std::hex << e.eid;
      return out.str();
    }
    const bool isLogic = std::holds_alternative<LogicT>(*type);
    bool compatible = isLogic == std::holds_alternative<bool>(*value);
    std::string text{};
    if (std::holds_alternative<bool>(*value)) {
      text = std::get<bool>(*value) ? "TRUE" : "FALSE";
    } else {
      const auto& data = std::get<StructuredData>(*value);
      text = data.ToString();
      compatible = compatible && ccl::object::CheckCompatible(data, std::get<Typification>(*type));
    }
    out << "VALUE " << text << " TYPE " << TypeStr(*type) << " COMPATIBLE " << compatible;
    return out.str();
  } catch (const std::exception& ex) {
    return std::string{"EXCEPTION escaped from Evaluate: "} + ex.what();
  }
}

// Same, but in a forked child so that a crash of the evaluator is observed instead of killing the demo.
std::string Isolated(Env& env, const std::string& expr, int timeoutSec = 60) {
  int fd[2];
  if (pipe(fd) != 0) return "pipe failed";
  const pid_t pid = fork();
  if (pid == 0) {
    close(fd[0]);
    alarm(timeoutSec);
    const auto report = CheckAndEvaluate(env, expr);
    (void)!write(fd[1], report.data(), report.size());
    close(fd[1]);
    _exit(0);
  }
  close(fd[1]);
  std::string report{};
  char buf[4096];
  for (ssize_t n = 0; (n = read(fd[0], buf, sizeof(buf))) > 0; ) report.append(buf, static_cast<size_t>(n));
  close(fd[0]);
  int status = 0;
  waitpid(pid, &status, 0);
  if (WIFSIGNALED(status)) {
    return "CRASH: evaluator killed by signal " + std::to_string(WTERMSIG(status)) + (WTERMSIG(status) == SIGALRM ? " (timeout)" : "");
  }
  if (!WIFEXITED(status) || WEXITSTATUS(status) != 0) {
    return "CRASH: evaluator process aborted, exit code " + std::to_string(WEXITSTATUS(status));
  }
  return report;
}
// ---- end of mini environment ----

// C02 finding 1: tuple-pattern normalisation rewrites variables OUTSIDE the scope of the pattern
// (earlier blocks of an imperative expression, the domain of a declarative expression, the copies of the shared
// domain of an enumerated quantifier), so an accepted
// expression that merely re-uses a variable name in a sibling scope evaluates pr_i() of a non-tuple -> crash.
int main() {
  Env env;
  env.Base("X1", Factory::SetV({ 1, 2, 3 }));
  env.data["S1"].type = Typification::Tuple({ Typification("X1"), Typification("X1") }).Bool();
  env.data["S1"].objects = Factory::Set({ Factory::TupleV({ 1, 2 }), Factory::TupleV({ 2, 2 }) });

  struct Case { std::string expr; std::string renamed; };
  const std::vector<Case> cases{
    // `a` is bound by the quantifier of block 1 (scope closed), then re-used by the tuple pattern of block 2
    { "I{(a,b) | ∃a∈X1 a=a; (a,b):∈X1×X1}",
      "I{(a,b) | ∃c∈X1 c=c; (a,b):∈X1×X1}" },
    // `a` is bound inside the domain expression, then re-used by the tuple pattern of the declarative
    { "D{(a,b)∈Fi1[D{a∈X1 | a=a}](X1×X1) | a=b}",
      "D{(a,b)∈Fi1[D{c∈X1 | c=c}](X1×X1) | a=b}" },
    // `a` is bound inside the domain shared by the enumerated declarations (a,b) and c; normalisation turns this into
    // nested quantifiers, so a copy of the domain ends up below the quantifier that declares the pattern
    { "∀(a,b),c∈D{a∈S1 | pr1(a)=pr1(a)} (a=b & c=c)",
      "∀(a,b),c∈D{d∈S1 | pr1(d)=pr1(d)} (a=b & c=c)" },
  };

  bool ok = true;
  for (const auto& test : cases) {
    const auto expected = Isolated(env, test.renamed); // alpha-renaming the out-of-scope variable must not matter
    const auto actual = Isolated(env, test.expr);
    std::cout << test.renamed << "\n    -> " << expected << "\n";
    std::cout << test.expr << "\n    -> " << actual << "\n";
    const bool good = actual == expected && actual.rfind("VALUE", 0) == 0 && actual.find("COMPATIBLE 1") != std::string::npos;
    if (!good) {
      std::cout << "    MISMATCH: accepted expression does not evaluate like its alpha-renamed twin\n";
      ok = false;
    }
  }
  std::cout << (ok ? "PASS" : "FAIL") << std::endl;
  return ok ? 0 : 1;
}
