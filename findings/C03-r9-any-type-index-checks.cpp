// C03-3: when the argument of a projection / filter has the "any" type (the empty set or its elements) the checker
// returns before it looks at the indices, so an index 0 (valid for no tuple at all) and a single filter parameter
// that is not a set of tuples of the indexed arity are accepted.
#include "ccl/api/RSFormJA.h"
#include "ccl/rslang/RSGenerator.h"
#include "ccl/tools/JSON.h"
#include <iostream>

using namespace ccl;
using JSON = nlohmann::ordered_json;
using semantic::CstType;

int main() {
  semantic::RSForm schema{};
  schema.Emplace(CstType::base);                                                           // X1
  schema.Emplace(CstType::structured, rslang::ConvertTo("B(X1*X1)", rslang::Syntax::MATH)); // S1
  auto wrapper = api::RSFormJA::FromData(std::move(schema));

  bool fail = false;
  const auto check = [&](const std::string& expr, const bool expectOK) {
    const auto out = JSON::parse(wrapper.CheckExpression(expr, rslang::Syntax::ASCII));
    const bool ok = out["parseResult"].get<bool>();
    bool critical = false;
    for (const auto& error : out["errors"]) {
      const auto pos = error["position"].get<int>();
      critical = critical || (error["isCritical"].get<bool>() && pos >= 0 && pos <= static_cast<int>(expr.size()));
    }
    const bool good = ok == expectOK && (ok || critical);
    std::cout << (good ? "  ok   " : "  BAD  ") << expr << "\n         -> parseResult=" << ok << " type=" << out["typification"]
      << " errors=" << out["errors"].dump() << "\n";
    fail = fail || !good;
  };

  // controls with a typed argument: index 0 and a wrong single parameter are refused
  check(R"(\A a \in S1 pr0(a) \eq a)", false);
  check(R"(Pr0(S1))", false);
  check(R"(Fi0[X1](S1))", false);
  check(R"(Fi1,2[X1](S1))", false);
  // the same with an argument of the any type: must be refused too
  check(R"(\A a \in {} pr0(a) \eq a)", false);
  check(R"(\A a \in {} Pr0(a) \eq a)", false);
  check(R"(Fi0[X1]({}))", false);
  check(R"(\A a \in {} Fi0[X1](a) \eq a)", false);
  check(R"(Fi1,2[X1]({}))", false);
  // controls: valid indices / parameters over the any type stay accepted
  check(R"(\A a \in {} pr1(a) \eq a)", true);
  check(R"(\A a \in {} Pr2,1(a) \eq a)", true);
  check(R"(Fi1[X1]({}))", true);
  check(R"(Fi1,2[X1,X1]({}))", true);
  check(R"(Fi1,2[X1*X1]({}))", true);
  check(R"(Fi1,2[{}]({}))", true);

  std::cout << (fail ? "FAIL" : "PASS") << std::endl;
  return fail ? 1 : 0;
}
