// C19-1: re-executing an operation silently rewrites its result; operations built on that
// result keep reporting "done" although they were synthesized from the previous content.
//
// build: g++ -std=c++20 -O0 -w -DNDEBUG $(cat <lib>/inc.txt) demo.cpp <lib>/libccl.a -o demo
#include "ccl/semantic/RSForm.h"
#include "ccl/oss/OSSchema.h"
#include "ccl/env/cclEnvironment.h"
#include "ccl/ops/RSOperations.h"

#include <iostream>
#include <list>
#include <memory>

using namespace ccl;
using semantic::CstType;
using semantic::RSForm;

// ---- minimal in-memory source manager (same behaviour as the upstream test double) ----
class MemSrc : public src::Source, public types::Observer {
public:
  RSForm schema{};
  std::u8string fullName{};
  bool saved{ true };
  bool open{ true };

  MemSrc() { schema.AddObserver(*this); }
  MemSrc(const MemSrc&) = delete;
  MemSrc& operator=(const MemSrc&) = delete;
  ~MemSrc() override { schema.RemoveObserver(*this); }

  void OnObserve(const types::Message&) override { saved = false; }
  // announce unsaved changes to the environment (what an editor does on save / on request)
  void Announce() {
    if (!saved) {
      Environment::Sources().OnSourceChange(*this);
      saved = true;
    }
  }
  change::Hash CoreHash() const override { return schema.CoreHash(); }
  change::Hash FullHash() const override { return schema.FullHash(); }
  bool WriteData(meta::UniqueCPPtr<src::DataStream> data) override {
    const auto* rs = dynamic_cast<const RSForm*>(data.get());
    if (rs == nullptr) { return false; }
    schema = *rs;
    return true;
  }
  const src::DataStream* ReadData() const override { return &schema; }
  src::DataStream* AccessData() override { return &schema; }
  src::SrcType Type() const noexcept override { return src::SrcType::rsDoc; }
};

class MemManager final : public SourceManager {
  std::list<MemSrc> sources{};
  int counter{ 0 };
public:
  MemSrc& Cast(src::Source& s) { return dynamic_cast<MemSrc&>(s); }
  MemSrc& NewDoc() {
    auto name = to_u8string(std::string("doc") + std::to_string(++counter) + ".trs");
    return Cast(*CreateNew(src::Descriptor{ src::SrcType::rsDoc, name }));
  }
  bool TestDomain(const src::Descriptor&, const std::u8string&) const override { return true; }
  src::Descriptor Convert2Local(const src::Descriptor& g, const std::u8string&) const override { return g; }
  src::Descriptor Convert2Global(const src::Descriptor& l, const std::u8string&) const override { return l; }
  src::Descriptor CreateLocalDesc(src::SrcType type, std::u8string name) const override {
    static int i = 0;
    if (std::empty(name)) { name = to_u8string(std::string("local") + std::to_string(++i)); }
    return src::Descriptor{ type, name + u8".trs" };
  }
  src::Source* Find(const src::Descriptor& desc) override {
    for (auto& s : sources) { if (s.fullName == desc.name && s.open) { return &s; } }
    return nullptr;
  }
  src::Descriptor GetDescriptor(const src::Source& s) const override {
    return src::Descriptor{ src::SrcType::rsDoc, dynamic_cast<const MemSrc&>(s).fullName };
  }
  src::Source* CreateNew(const src::Descriptor& desc) override {
    if (Find(desc) != nullptr) { return nullptr; }
    sources.emplace_back();
    sources.back().fullName = desc.name;
    return &sources.back();
  }
  src::Source* Open(const src::Descriptor& desc) override {
    for (auto& s : sources) {
      if (s.fullName == desc.name) { s.open = true; OnSourceOpen(s); return &s; }
    }
    return nullptr;
  }
  void Close(src::Source& s) override {
    Cast(s).Announce();
    OnSourceClose(s);
    Cast(s).open = false;
  }
  bool SaveState(src::Source& s) override {
    if (!Cast(s).open) { return false; }
    Cast(s).Announce();
    return true;
  }
  void Discard(const src::Descriptor& desc) override {
    if (auto* s = Open(desc); s != nullptr) { s->ReleaseClaim(); Close(*s); }
  }
};

static const char* Name(ops::Status s) {
  switch (s) {
  case ops::Status::undefined: return "undefined";
  case ops::Status::defined: return "defined";
  case ops::Status::done: return "done";
  case ops::Status::outdated: return "outdated";
  case ops::Status::broken: return "broken";
  }
  return "?";
}

int main() {
  Environment::Instance().SetSourceManager(std::make_unique<MemManager>());
  auto& mgr = dynamic_cast<MemManager&>(Environment::Sources());
  bool failed = false;
  {
    oss::OSSchema oss{};
    auto& srcs = oss.Src();
    auto& operations = oss.Ops();

    const auto b1 = oss.InsertBase()->uid;
    const auto b2 = oss.InsertBase()->uid;
    const auto b3 = oss.InsertBase()->uid;
    auto& doc1 = mgr.NewDoc();
    auto& doc2 = mgr.NewDoc();
    auto& doc3 = mgr.NewDoc();
    doc1.schema.Emplace(CstType::base);
    doc2.schema.Emplace(CstType::base);
    doc3.schema.Emplace(CstType::base);
    srcs.ConnectPict2Src(b1, doc1);
    srcs.ConnectPict2Src(b2, doc2);
    srcs.ConnectPict2Src(b3, doc3);

    const auto child = oss.InsertOperation(b1, b2)->uid;        // child      = b1 + b2
    const auto grand = oss.InsertOperation(child, b3)->uid;     // grandchild = child + b3
    operations.InitFor(child, ops::Type::rsMerge);
    operations.InitFor(grand, ops::Type::rsMerge);
    if (!operations.Execute(child) || !operations.Execute(grand)) {
      std::cout << "setup failed\n";
      return 2;
    }
    std::cout << "initial:            child=" << Name(operations.StatusOf(child))
              << " grandchild=" << Name(operations.StatusOf(grand)) << "\n";

    // edit operand b1 and announce it
    doc1.schema.Emplace(CstType::term, "X1");
    doc1.Announce();
    std::cout << "b1 edited:          child=" << Name(operations.StatusOf(child))
              << " grandchild=" << Name(operations.StatusOf(grand)) << "\n";

    // re-execute the child: the formal content of its source changes (3 constituents instead of 2)
    const auto hashBefore = srcs(child)->coreHash;
    if (!operations.Execute(child)) {
      std::cout << "re-execution failed\n";
      return 2;
    }
    auto& childDoc = mgr.Cast(*srcs(child)->src);
    childDoc.Announce(); // the manager announces the rewritten document as well
    const auto hashAfter = srcs(child)->coreHash;

    const auto* childData = dynamic_cast<const RSForm*>(srcs.DataFor(child));
    const auto* grandData = dynamic_cast<const RSForm*>(srcs.DataFor(grand));
    const auto* b3Data = dynamic_cast<const RSForm*>(srcs.DataFor(b3));
    auto fresh = ops::BinarySynthes(*childData, *b3Data, ops::EquationOptions{}).Execute();

    std::cout << "child re-executed:  child=" << Name(operations.StatusOf(child))
              << " grandchild=" << Name(operations.StatusOf(grand)) << "\n";
    std::cout << "child core hash changed: " << (hashBefore != hashAfter ? "yes" : "no") << "\n";
    std::cout << "grandchild stored result has " << std::size(grandData->Core())
              << " constituents, synthesis of its parents' current schemas has "
              << std::size(fresh->Core()) << "\n";

    const bool parentChanged = hashBefore != hashAfter;
    const bool stale = std::size(grandData->Core()) != std::size(fresh->Core());
    const bool reportsDone = operations.StatusOf(grand) == ops::Status::done;
    if (parentChanged && stale && reportsDone) {
      std::cout << "grandchild still reports 'done' on a result computed from the child's previous content\n";
      failed = true;
    }

    // consequence: executing a great-grandchild does not refresh the grandchild either
    if (!failed) {
      if (!operations.Execute(grand)) {
        std::cout << "grandchild re-execution failed\n";
        failed = true;
      } else {
        const auto* refreshed = dynamic_cast<const RSForm*>(srcs.DataFor(grand));
        if (std::size(refreshed->Core()) != std::size(fresh->Core()) ||
            operations.StatusOf(grand) != ops::Status::done) {
          std::cout << "grandchild not fresh after re-execution\n";
          failed = true;
        }
      }
    }
  }
  Environment::Instance().SetSourceManager(std::make_unique<SourceManager>());
  std::cout << (failed ? "FAIL" : "PASS") << "\n";
  return failed ? 1 : 0;
}
