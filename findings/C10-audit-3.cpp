// C10-3: RSModel does not resynchronise the values of constituents whose typing changes because ANOTHER constituent
// was inserted or renamed. The JSON document stores values against the typification, so such models do not survive
// saving and loading: a typed structure without a value comes back with the value {}, and values kept for
// constituents that lost their typification are silently dropped.
#include "ccl/tools/JSON.h"
#include "ccl/semantic/RSModel.h"
#include <iostream>

using JSON = nlohmann::ordered_json;
using ccl::semantic::RSModel;
using ccl::semantic::CstType;
using ccl::object::Factory;

static std::string Show(const RSModel& model, ccl::EntityUID uid) {
  const auto value = model.Values().SDataFor(uid);
  return model.GetRS(uid).alias + "=" + (value.has_value() ? value->ToString() : std::string{ "<no value>" })
    + " calculated=" + std::to_string(model.Calculations().WasCalculated(uid))
    + " status=" + std::to_string(static_cast<int>(model.Calculations()(uid)));
}

static bool RoundTrip(const RSModel& model, const char* title) {
  const auto document = JSON(model);
  RSModel restored{};
  document.get_to(restored);
  const auto document2 = JSON(restored);

  bool ok = true;
  std::cout << title << "\n";
  for (const auto uid : model.List()) {
    if (restored.Values().SDataFor(uid) != model.Values().SDataFor(uid) ||
        restored.Calculations().WasCalculated(uid) != model.Calculations().WasCalculated(uid) ||
        restored.Calculations()(uid) != model.Calculations()(uid)) {
      std::cout << "  original: " << Show(model, uid) << "\n  restored: " << Show(restored, uid) << "\n";
      ok = false;
    }
  }
  if (document.dump() != document2.dump()) {
    std::cout << "  saving the loaded model gives another document\n";
    std::cout << "    saved    " << document["data"].dump() << "\n";
    std::cout << "    re-saved " << document2["data"].dump() << "\n";
    ok = false;
  }
  std::cout << (ok ? "  ok\n" : "  MISMATCH\n");
  return ok;
}

int main() {
  bool ok = true;
  {
    RSModel model{};
    model.Emplace(CstType::base); // X1
    model.Emplace(CstType::structured, "\xE2\x84\xAC(X2)"); // S1 := B(X2), X2 does not exist yet
    model.Emplace(CstType::base); // X2
    ok = RoundTrip(model, "1. structure written before the base set it mentions (Emplace)") && ok;
  }
  {
    RSModel model{};
    const auto x1 = model.Emplace(CstType::base); // X1
    model.Emplace(CstType::base); // X2
    const auto x3 = model.Emplace(CstType::base); // X3
    model.Emplace(CstType::structured, "\xE2\x84\xAC(X1\xC3\x97X4)"); // S1 := B(X1*X4), X4 does not exist
    model.SetAliasFor(x3, "X4", true);
    ok = RoundTrip(model, "2. base set renamed to the name a structure was waiting for (SetAliasFor, with substitution)") && ok;
  }
  {
    RSModel model{};
    const auto x1 = model.Emplace(CstType::base); // X1
    model.Values().AddBasicElement(x1, "a");
    model.Values().AddBasicElement(x1, "b");
    const auto s1 = model.Emplace(CstType::structured, "\xE2\x84\xAC(X1)"); // S1 := B(X1)
    model.Values().SetStructureData(s1, Factory::SetV({ 2 }));
    const auto d1 = model.Emplace(CstType::term, "X1\\S1"); // D1
    model.Calculations().Calculate(d1);
    model.SetAliasFor(x1, "X2", false); // mentions are kept: S1 and D1 now refer to a missing X1
    ok = RoundTrip(model, "3. values kept for constituents that lost their typification (SetAliasFor, no substitution)") && ok;
  }
  {
    RSModel model{};
    model.Emplace(CstType::base); // X1
    const auto x2 = model.Emplace(CstType::base); // X2
    model.Emplace(CstType::base); // X3
    model.Erase(x2);
    model.Emplace(CstType::structured, "\xE2\x84\xAC(X2)"); // S1 := B(X2), X2 does not exist any more
    model.ResetAliases(); // X3 becomes X2
    ok = RoundTrip(model, "4. names renumbered onto a dangling mention (ResetAliases)") && ok;
  }
  std::cout << (ok ? "PASS" : "FAIL") << "\n";
  return ok ? 0 : 1;
}
