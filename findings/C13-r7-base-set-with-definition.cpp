// C13-1: OpMaxPart accepts a selected base/constant set that carries a definition (an incorrect member)
// without checking that what the definition mentions is selected; the result then mentions a name
// that resolved in the source but is not part of the result.
#include "ccl/ops/RSOperations.h"
#include "ccl/rslang/RSExpr.h"
#include "ccl/rslang/Literals.h"
#include <iostream>

using namespace ccl;
using semantic::CstType;
using semantic::RSForm;
using rslang::operator""_rs;

static std::string Dump(const RSForm& s) {
  std::string out;
  for (const auto uid : s.List()) {
    const auto& c = s.GetRS(uid);
    out += "   " + c.alias + " := '" + c.definition + "' status=" + std::to_string(static_cast<int>(s.GetParse(uid).status)) + "\n";
  }
  return out;
}

// every name mentioned in a definition of result, that resolved in source, must resolve in result to the same constituent
static bool Closed(const RSForm& source, const RSForm& result, const std::unordered_map<EntityUID, std::string>& oldAlias) {
  bool ok = true;
  for (const auto uid : result.List()) {
    // definitions of source: the mentions that resolved there
    for (const auto& name : rslang::ExtractUGlobals(source.GetRS(uid).definition)) {
      const auto dep = source.Core().FindAlias(name);
      if (dep.has_value() && !result.Contains(dep.value())) {
        std::cout << "   " << oldAlias.at(uid) << " (now " << result.GetRS(uid).alias << ") mentions " << name
          << " that resolved in the source but is not in the result\n";
        ok = false;
      }
    }
  }
  return ok;
}

int main() {
  RSForm schema{};
  const auto x1 = schema.Emplace(CstType::base);
  const auto x2 = schema.Emplace(CstType::base);
  const auto d1 = schema.Emplace(CstType::term, "B(X2)"_rs);
  const auto d2 = schema.Emplace(CstType::term, "B(X1)"_rs);
  schema.SetExpressionFor(x1, "D1"); // incorrect member: base set with a definition, depends on D1 -> X2

  std::unordered_map<EntityUID, std::string> oldAlias{};
  for (const auto uid : schema.List()) {
    oldAlias[uid] = schema.GetRS(uid).alias;
  }
  std::cout << "source:\n" << Dump(schema);

  bool pass = true;

  // a term whose dependencies are not selected is refused ...
  std::cout << "OpMaxPart({D2}).IsCorrectlyDefined() = " << ops::OpMaxPart(schema, { d2 }).IsCorrectlyDefined() << " (term, X1 not selected)\n";
  // ... a base set whose dependencies are not selected is accepted
  ops::OpMaxPart op{ schema, { x1 } };
  const auto accepted = op.IsCorrectlyDefined();
  std::cout << "OpMaxPart({X1}).IsCorrectlyDefined() = " << accepted << " (base set, D1 not selected)\n";
  if (accepted) {
    const auto result = op.Execute();
    if (result == nullptr) {
      std::cout << "   Execute returned nullptr\n";
      pass = false;
    } else {
      std::cout << "result:\n" << Dump(*result);
      pass = Closed(schema, *result, oldAlias) && pass;
    }
  }

  // the closed selection must still work and give the whole dependent part
  {
    ops::OpMaxPart closedOp{ schema, { x1, x2, d1 } };
    if (!closedOp.IsCorrectlyDefined()) {
      std::cout << "closed selection {X1, X2, D1} refused\n";
      pass = false;
    } else {
      const auto result = closedOp.Execute();
      if (result == nullptr || std::size(result->Core()) != 4U || !Closed(schema, *result, oldAlias)) {
        std::cout << "closed selection {X1, X2, D1}: unexpected result\n";
        pass = false;
      }
    }
  }
  // plain base sets remain acceptable
  if (!ops::OpMaxPart(schema, { x2 }).IsCorrectlyDefined()) {
    std::cout << "plain base set X2 refused\n";
    pass = false;
  }

  std::cout << (pass ? "PASS" : "FAIL") << std::endl;
  return pass ? 0 : 1;
}
