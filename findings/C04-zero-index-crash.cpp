#include "ccl/rslang/RSGenerator.h"
#include "ccl/rslang/Parser.h"
#include "ccl/api/RSFormJA.h"
#include <iostream>
using namespace ccl;
int main(int argc, char** argv) {
  const char* e = argc > 1 ? argv[1] : "pr0(X1)";
  rslang::Parser p;
  std::cout << "parse `" << e << "` = " << p.Parse(e) << " errors=" << p.Errors().All().size() << std::endl;
  std::cout << "convert: " << rslang::ConvertTo(e, rslang::Syntax::ASCII) << std::endl;
}
