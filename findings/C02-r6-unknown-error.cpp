#include "ccl/semantic/RSModel.h"
#include "ccl/rslang/Interpreter.h"
#include <iostream>
using namespace ccl; using namespace ccl::semantic;
int main(int argc, char** argv) {
  RSModel m;
  auto x1 = m.Emplace(CstType::base);
  rslang::Interpreter it{ m.Core().RSLang(), m.Core().RSLang().ASTContext(), m.Calculations().Context() };
  for (const char* e : {"X1", "X2:==", "\xE2\x88\x85", "S1::=X1", "[\xCE\xB1\xE2\x88\x88X1] \xCE\xB1", "F1:==[\xCE\xB1\xE2\x88\x88X1] \xCE\xB1", "R1"}) {
    try {
      auto v = it.Evaluate(e);
      std::cout << "`" << e << "` value=" << v.has_value() << " errors=" << it.Errors().All().size();
      for (auto& er : it.Errors().All()) std::cout << " [" << std::hex << er.eid << std::dec << "]";
      std::cout << "\n";
    } catch (const std::exception& ex) { std::cout << "`" << e << "` THROWS " << ex.what() << "\n"; }
  }
}
