// C10 finding 1: a term that refers to itself (directly or through other terms) is not stable under save/load.
// Every load re-resolves the term from its previous resolution, so the "resolved" text changes on each pass.
#include "ccl/tools/JSON.h"

#include <iostream>
#include <string>

using JSON = nlohmann::ordered_json;
using ccl::semantic::RSForm;
using ccl::semantic::CstType;

namespace {

int failures = 0;

void Check(const std::string& scenario, const RSForm& schema, const std::vector<ccl::EntityUID>& watch) {
  const auto first = JSON(schema).dump(1);
  RSForm loaded{};
  JSON::parse(first).get_to(loaded);
  const auto second = JSON(loaded).dump(1);
  RSForm loadedAgain{};
  JSON::parse(second).get_to(loadedAgain);
  const auto third = JSON(loadedAgain).dump(1);

  std::cout << "== " << scenario << "\n";
  for (const auto uid : watch) {
    std::cout << "  " << schema.GetRS(uid).alias << " raw:        " << schema.GetText(uid).term.Text().Raw() << "\n";
    std::cout << "     original:   " << schema.GetText(uid).term.Nominal() << "\n";
    std::cout << "     loaded:     " << loaded.GetText(uid).term.Nominal() << "\n";
    std::cout << "     loaded x2:  " << loadedAgain.GetText(uid).term.Nominal() << "\n";
    if (schema.GetText(uid).term.Text().Raw() != loaded.GetText(uid).term.Text().Raw()) {
      std::cout << "  raw text differs (unexpected)\n";
      ++failures;
    }
  }
  if (first != second) {
    std::cout << "  save(load(save(x))) != save(x)\n";
    ++failures;
  }
  if (second != third) {
    std::cout << "  the document is not stable: second and third save differ\n";
    ++failures;
  }
}

} // namespace

int main() {
  {
    RSForm schema{};
    const auto x1 = schema.Emplace(CstType::base);
    const auto x2 = schema.Emplace(CstType::base);
    schema.SetTermFor(x1, "человек");
    schema.SetTermFor(x2, "отец @{X2|sing,gent}"); // user mistake: X2 instead of X1
    Check("term refers to itself", schema, { x2 });
  }
  {
    RSForm schema{};
    const auto x1 = schema.Emplace(CstType::base);
    const auto x2 = schema.Emplace(CstType::base);
    const auto d1 = schema.Emplace(CstType::term, "X1");
    schema.SetTermFor(x1, "a @{X2|sing,nomn}");
    schema.SetTermFor(x2, "b @{X1|sing,nomn}");
    schema.SetTermFor(d1, "c @{X1|sing,nomn}");
    schema.SetDefinitionFor(d1, "def @{X2|sing,nomn}");
    Check("two terms refer to each other", schema, { x1, x2, d1 });
  }
  {
    // same loop, terms are entered in the opposite order: the content of the schema is the same
    RSForm schema{};
    const auto x1 = schema.Emplace(CstType::base);
    const auto x2 = schema.Emplace(CstType::base);
    schema.SetTermFor(x2, "b @{X1|sing,nomn}");
    schema.SetTermFor(x1, "a @{X2|sing,nomn}");
    Check("two terms refer to each other, other order of edits", schema, { x1, x2 });
  }
  std::cout << (failures == 0 ? "PASS" : "FAIL") << "\n";
  return failures == 0 ? 0 : 1;
}
