// C06-1: a moved RSParser keeps its bison driver bound to the ParserState of the moved-from object.
// Legal use: RSParser declares (and defines) move construction and move assignment.
// Expected: the moved-to parser parses a valid expression and returns its tree with correct ranges.
// Observed (unmodified): Parse() dereferences the moved-from state (null token stream) -> crash,
// or (move assignment from a temporary) uses a destroyed ParserState.
#include "ccl/rslang/RSParser.h"
#include "ccl/rslang/MathLexer.h"
#include "ccl/rslang/SyntaxTree.h"

#include <iostream>
#include <string>
#include <vector>
#include <sys/wait.h>
#include <unistd.h>

using namespace ccl::rslang;

static const std::string input = "\xCE\xB1\xE2\x88\x88(X1\xE2\x88\xAAX2)"; // α∈(X1∪X2)
static const std::string expected = "[\xE2\x88\x88[\xCE\xB1][\xE2\x88\xAA[X1][X2]]]";

static bool CheckTree(detail::RSParser& parser, const char* what) {
  detail::MathLexer lexer{};
  if (!parser.Parse(lexer(input).Stream())) {
    std::cout << what << ": Parse returned false\n";
    return false;
  }
  auto tree = parser.ExtractAST();
  if (tree == nullptr) {
    std::cout << what << ": Parse returned true but the parser holds no tree\n";
    return false;
  }
  const auto dump = AST2String::Apply(*tree);
  const auto root = tree->Root();
  const bool ok = dump == expected
    && root->pos == ccl::StrRange{ 0, 9 }
    && root(1).pos == ccl::StrRange{ 2, 9 };
  std::cout << what << ": " << dump << " root=[" << root->pos.start << "," << root->pos.finish << ")"
    << (ok ? " ok" : " WRONG") << "\n";
  return ok;
}

static int Scenario(int id) {
  if (id == 0) { // move construction
    detail::RSParser first{};
    detail::RSParser second{ std::move(first) };
    return CheckTree(second, "move-constructed") ? 0 : 1;
  } else if (id == 1) { // move assignment from an object that then dies
    detail::RSParser target{};
    {
      detail::RSParser temporary{};
      target = std::move(temporary);
    }
    std::vector<char> churn(4096, 'x'); // reuse the stack/heap a little
    (void)churn;
    return CheckTree(target, "move-assigned") ? 0 : 1;
  } else { // vector growth relocates parsers by move
    std::vector<detail::RSParser> pool{};
    for (int i = 0; i < 5; ++i) {
      pool.emplace_back();
    }
    bool ok = true;
    for (auto& parser : pool) {
      ok = CheckTree(parser, "vector element") && ok;
    }
    return ok ? 0 : 1;
  }
}

int main() {
  bool allOK = true;
  for (int id = 0; id < 3; ++id) {
    std::cout.flush();
    const pid_t child = fork();
    if (child == 0) {
      const int rc = Scenario(id);
      std::cout.flush();
      _exit(rc);
    }
    int status = 0;
    waitpid(child, &status, 0);
    if (WIFSIGNALED(status)) {
      std::cout << "scenario " << id << ": crashed with signal " << WTERMSIG(status) << "\n";
      allOK = false;
    } else if (WEXITSTATUS(status) != 0) {
      std::cout << "scenario " << id << ": wrong result\n";
      allOK = false;
    }
  }
  std::cout << (allOK ? "PASS" : "FAIL") << "\n";
  return allOK ? 0 : 1;
}
