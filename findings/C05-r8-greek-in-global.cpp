// C05 finding 2: the MATH lexer accepts Greek letters inside GLOBAL identifiers
// (alnum is built from the widened `lower`), but the ASCII printer transliterates
// only LOCAL names, so the ASCII text of such an expression contains raw UTF-8
// that the ASCII lexer rejects: print -> parse does not give the tree back.
//
// PASS criterion for every input: either MATH parsing rejects it (then it is outside
// the property), or the ASCII text is pure ASCII, re-parses in ASCII, and the re-parsed
// tree equals the original up to the fixed transliteration of identifiers
// (same token ids, same child structure, identifier spelling == transliterated spelling).
#include "ccl/rslang/Parser.h"
#include "ccl/rslang/RSGenerator.h"
#include <iostream>

using namespace ccl::rslang;

static bool SameUpToTransliteration(SyntaxTree::Cursor lhs, SyntaxTree::Cursor rhs) {
  if (lhs->id != rhs->id || lhs.ChildrenCount() != rhs.ChildrenCount()) {
    return false;
  }
  if (lhs.ChildrenCount() == 0 && lhs->ToString(Syntax::ASCII) != rhs->ToString(Syntax::ASCII)) {
    return false;
  }
  if (lhs->data.IsTuple() && lhs->data != rhs->data) {
    return false;
  }
  for (Index i = 0; i < lhs.ChildrenCount(); ++i) {
    if (!SameUpToTransliteration(lhs.Child(i), rhs.Child(i))) {
      return false;
    }
  }
  return true;
}

static int Check(const std::string& text) {
  Parser parser{};
  if (!parser.Parse(text, Syntax::MATH)) {
    std::cout << "  rejected by the MATH parser (fine): " << text << "\n";
    return 0;
  }
  const SyntaxTree tree = parser.AST();
  int bad = 0;
  {
    const auto math = Generator::FromTree(tree, Syntax::MATH);
    Parser again{};
    const bool ok = again.Parse(math, Syntax::MATH) && again.AST() == tree;
    std::cout << "  " << text << " -> MATH  [" << math << "] roundtrip=" << ok << "\n";
    bad += ok ? 0 : 1;
  }
  {
    const auto ascii = Generator::FromTree(tree, Syntax::ASCII);
    bool pure = true;
    for (const unsigned char ch : ascii) {
      pure = pure && ch < 0x80;
    }
    Parser again{};
    const bool parsed = again.Parse(ascii, Syntax::ASCII);
    const bool same = parsed && SameUpToTransliteration(tree.Root(), again.AST().Root());
    const bool viaConvert = ConvertTo(text, Syntax::ASCII) == ascii;
    std::cout << "  " << text << " -> ASCII [" << ascii << "] pureASCII=" << pure
              << " reparse=" << parsed << " sameUpToTransliteration=" << same << "\n";
    bad += (pure && same && viaConvert) ? 0 : 1;
  }
  return bad;
}

int main() {
  int bad = 0;
  bad += Check("X\xCE\xB1\xE2\x88\x88S1");                       // Xα∈S1
  bad += Check("X\xCE\xB1\xCE\xB2" "1:==X1\xE2\x88\xAAX2");      // Xαβ1:==X1∪X2
  bad += Check("F1\xCF\x89[a]\xE2\x88\x88S1");                   // F1ω[a]... (global id F1ω, if accepted)
  bad += Check("D\xCE\xB4\xE2\x8A\x86X1");                       // Dδ⊆X1
  // control: Greek local names keep working
  bad += Check("\xE2\x88\x80\xCE\xBE\xE2\x88\x88X1 \xCE\xBE\xE2\x88\x88S1"); // ∀ξ∈X1 ξ∈S1
  std::cout << (bad == 0 ? "PASS" : "FAIL") << "\n";
  return bad == 0 ? 0 : 1;
}
