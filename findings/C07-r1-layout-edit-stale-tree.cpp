// C07-1: a definition edit that only changes layout (spaces / redundant brackets) replaces the stored text but keeps
// the cached syntax tree of the previous text, so the token positions reported by GetParse(uid).ast differ from those
// of a schema freshly built from the same content (and may point past the end of the current definition).
#include "ccl/semantic/RSForm.h"
#include "ccl/tools/JSON.h"

#include <iostream>

using namespace ccl;
using namespace ccl::semantic;

static std::string Dump(rslang::SyntaxTree::Cursor c) {
  std::string out = "[" + c->ToString() + "@" + std::to_string(c->pos.start) + "-" + std::to_string(c->pos.finish);
  for (rslang::Index i = 0; i < c.ChildrenCount(); ++i) {
    out += Dump(c.Child(i));
  }
  return out + "]";
}

static StrPos MaxFinish(rslang::SyntaxTree::Cursor c) {
  StrPos result = c->pos.finish;
  for (rslang::Index i = 0; i < c.ChildrenCount(); ++i) {
    result = std::max(result, MaxFinish(c.Child(i)));
  }
  return result;
}

static std::unique_ptr<RSForm> BuildFresh(const RSForm& source) {
  auto fresh = std::make_unique<RSForm>();
  for (const auto uid : source.List()) {
    ConceptRecord rec{};
    rec.uid = uid;
    rec.alias = source.GetRS(uid).alias;
    rec.type = source.GetRS(uid).type;
    rec.rs = source.GetRS(uid).definition;
    rec.convention = source.GetRS(uid).convention;
    rec.term = lang::LexicalTerm{ source.GetText(uid).term.Text().Raw() };
    rec.definition = lang::ManagedText{ source.GetText(uid).definition.Raw() };
    fresh->Load(std::move(rec));
  }
  fresh->UpdateState();
  return fresh;
}

int main() {
  static const std::string wide = "X1   \xE2\x88\xAA   X1"; // X1   ∪   X1
  static const std::string tight = "X1\xE2\x88\xAAX1";      // X1∪X1

  RSForm schema{};
  schema.Emplace(CstType::base);
  const auto d1 = schema.Emplace(CstType::term, wide);
  std::cout << "initial   '" << schema.GetRS(d1).definition << "' ast " << Dump(schema.GetParse(d1).ast->Root()) << "\n";

  const auto reported = schema.SetExpressionFor(d1, tight);
  std::cout << "SetExpressionFor returned " << reported << ", stored definition is now '" << schema.GetRS(d1).definition << "'\n";

  const auto fresh = BuildFresh(schema);
  const auto incremental = Dump(schema.GetParse(d1).ast->Root());
  const auto scratch = Dump(fresh->GetParse(d1).ast->Root());
  std::cout << "edited    ast " << incremental << "\n";
  std::cout << "fresh     ast " << scratch << "\n";

  nlohmann::ordered_json jsonEdited = *schema.GetParse(d1).ast;
  nlohmann::ordered_json jsonFresh = *fresh->GetParse(d1).ast;
  std::cout << "JSON export of the tree equal: " << (jsonEdited == jsonFresh) << "\n";

  // text analysed for D1 is "D1:==" + definition : 5 + 5 code points
  const StrPos analysedLength = 5 + 5;
  std::cout << "largest token end in cached tree " << MaxFinish(schema.GetParse(d1).ast->Root())
    << ", length of the analysed text " << analysedLength << "\n";

  const bool same = schema.GetRS(d1).definition == fresh->GetRS(d1).definition
    && incremental == scratch && jsonEdited == jsonFresh;
  std::cout << (same ? "PASS" : "FAIL") << "\n";
  return same ? 0 : 1;
}
