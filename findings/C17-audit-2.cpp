// C17-2: an unterminated "@{" (or an ill-formed outer "@{...}") hides every later / enclosed well-formed reference
#include "ccl/lang/RefsManager.h"
#include "ccl/lang/LexicalTerm.h"
#include "ccl/lang/ManagedText.h"
#include <iostream>

using namespace ccl;
using namespace ccl::lang;

class Ctx : public EntityTermContext {
public:
  std::unordered_map<std::string, LexicalTerm> terms;
  bool Contains(const std::string& e) const override { return terms.contains(e); }
  const LexicalTerm* At(const std::string& e) const override {
    auto it = terms.find(e); return it == terms.end() ? nullptr : &it->second;
  }
};

static int failures = 0;
static void Check(bool ok, const std::string& what) {
  std::cout << (ok ? "  ok   " : "  BAD  ") << what << "\n";
  if (!ok) ++failures;
}

int main() {
  Ctx ctx;
  ctx.terms.emplace("X1", LexicalTerm{ "Test" });
  ctx.terms.emplace("X2", LexicalTerm{ "Other" });

  // control: a *closed* malformed marker does not disturb later references
  {
    const auto refs = Reference::ExtractAll("see @{oops} then @{X1|nomn} and @{X2|sing}");
    Check(refs.size() == 2, "control: closed malformed marker, 2 references found");
  }
  // (A) unterminated malformed marker before two well-formed references
  {
    const std::string text = "see @{oops then @{X1|nomn} and @{X2|sing}";
    const auto refs = Reference::ExtractAll(text);
    std::cout << "ExtractAll(\"" << text << "\") -> " << refs.size() << " reference(s)\n";
    Check(refs.size() == 2 && refs[0].position == StrRange(16, 26) && refs[1].position == StrRange(31, 41),
      "(A) references at [16,26) and [31,41)");
    RefsManager mgr{ ctx };
    const auto resolved = mgr.Resolve(text);
    std::cout << "Resolve -> \"" << resolved << "\"\n";
    Check(resolved == "see @{oops then Test and Other", "(A) resolved text \"see @{oops then Test and Other\"");
    Check(mgr.OutputRefs(resolved) == text, "(A) OutputRefs(resolved) restores the text");
    ManagedText mt{ text };
    Check(mt.Referals() == std::unordered_set<std::string>{ "X1", "X2" }, "(A) Referals() == {X1, X2}");
  }
  // (B) stray '{' inside the text between a bare "@{" and the reference; multi-byte text in front
  {
    const std::string text = "\xD1\x8F\xD1\x8F @{ {a} @{-1|basic} @{X1|nomn}";
    const auto refs = Reference::ExtractAll(text);
    Check(refs.size() == 2 && refs[0].position == StrRange(10, 21) && refs[1].position == StrRange(22, 32),
      "(B) references at [10,21) and [22,32)");
  }
  // (C) arguable variant (reported, not counted): balanced ill-formed outer marker enclosing a well-formed reference
  {
    const std::string text = "@{ @{X1|nomn} }";
    const auto refs = Reference::ExtractAll(text);
    std::cout << "  info (C) \"" << text << "\" -> " << refs.size() << " reference(s) (inner @{X1|nomn} "
      << (refs.size() == 1 ? "found" : "not found") << ")\n";
  }
  std::cout << (failures == 0 ? "PASS" : "FAIL") << "\n";
  return failures == 0 ? 0 : 1;
}
