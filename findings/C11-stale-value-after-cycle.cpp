// C11 finding 3: Schema::TriggerParse (used by SetExpressionFor) checks the new definition while the OLD
// parsing info of the edited constituent (and of its dependants) is still in place. A definition that closes a
// dependency cycle (S1:∈ℬ(S1), or S1:∈ℬ(S2) with S2:∈ℬ(S1)) is therefore accepted as VERIFIED against its own
// previous typification. The model calculates dependants from it. The next insertion or erasure reparses the
// schema from scratch (Schema::UpdateState), the cycle members and their dependants become INCORRECT, but
// RSModel::Emplace / InsertCopy / Erase reset nothing for them: values calculated from the invalid definitions
// stay visible as current.
#include "ccl/semantic/RSModel.h"
#include "ccl/rslang/Literals.h"

#include <iostream>

using namespace ccl;
using namespace ccl::semantic;
using ccl::object::Factory;
using ccl::rslang::operator""_rs;

static std::string Show(const RSModel& m, const EntityUID uid) {
  const auto value = m.Values().SDataFor(uid);
  return m.GetRS(uid).alias + " := " + m.GetRS(uid).definition
    + (m.GetParse(uid).status == ParsingStatus::VERIFIED ? " [VERIFIED]" : " [INCORRECT]")
    + " status=" + std::to_string(static_cast<int>(m.Calculations()(uid)))
    + " value=" + (value.has_value() ? value->ToString() : std::string{ "none" });
}

static bool ReportsValue(const RSModel& m, const EntityUID uid) {
  const auto status = m.Calculations()(uid);
  return status == EvalStatus::HAS_DATA || status == EvalStatus::EMPTY;
}

static bool Scenario(const bool selfLoop) {
  bool fail = false;
  RSModel m{};
  const auto x1 = m.Emplace(CstType::base);
  m.Values().AddBasicElement(x1, "a");
  m.Values().AddBasicElement(x1, "b");
  const auto s1 = m.Emplace(CstType::structured, "B(X1)"_rs);
  const auto s2 = m.Emplace(CstType::structured, "B(S1)"_rs);
  const auto d1 = m.Emplace(CstType::term, R"(S1 \union S1)"_rs);

  const auto changed = m.SetExpressionFor(s1, selfLoop ? "B(S1)"_rs : "B(S2)"_rs);
  std::cout << "  SetExpressionFor(S1) -> " << changed << ": " << Show(m, s1) << " | " << Show(m, s2) << "\n";
  if (m.GetParse(s1).status == ParsingStatus::VERIFIED) {
    std::cout << "  -> cyclic definition accepted as VERIFIED\n";
  }
  const auto dataSet = m.Values().SetStructureData(s1, Factory::Set({ Factory::Val(1), Factory::Val(2) }));
  m.Calculations().RecalculateAll();
  std::cout << "  SetStructureData(S1, {1, 2}) -> " << dataSet << ", RecalculateAll: " << Show(m, d1) << "\n";

  m.Emplace(CstType::base); // unrelated insertion
  std::cout << "  Emplace(base): " << Show(m, s1) << " | " << Show(m, d1) << "\n";
  const auto before = ReportsValue(m, d1) ? m.Values().SDataFor(d1) : std::nullopt;

  m.Calculations().RecalculateAll();
  std::cout << "  RecalculateAll: " << Show(m, d1) << "\n";
  const auto after = ReportsValue(m, d1) ? m.Values().SDataFor(d1) : std::nullopt;

  // Clause: a constituent that reports a calculated value reports the value that recalculating everything gives
  if (before.has_value() && (!after.has_value() || before.value() != after.value())) {
    std::cout << "  -> D1 reported " << before->ToString() << " as its calculated value, recalculating everything gives "
      << (after.has_value() ? after->ToString() : std::string{ "no value" }) << "\n";
    fail = true;
  }
  return !fail;
}

int main() {
  bool ok = true;
  std::cout << "A: self reference S1:∈ℬ(S1)\n";
  ok = Scenario(true) && ok;
  std::cout << "B: two-element cycle S1:∈ℬ(S2), S2:∈ℬ(S1)\n";
  ok = Scenario(false) && ok;
  std::cout << (ok ? "PASS" : "FAIL") << "\n";
  return ok ? 0 : 1;
}
