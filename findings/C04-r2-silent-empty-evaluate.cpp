// C04-3: Interpreter::Evaluate("") reports failure (no value) but logs no error at all, while every sibling
// entry point (Parser::Parse, Auditor::CheckType, api::ParseExpression, RSFormJA::CheckExpression) logs the
// critical syntax error 0x8400 for the same input. "Failure iff a critical error was logged" is broken.
#include "ccl/semantic/RSModel.h"
#include "ccl/rslang/Interpreter.h"
#include "ccl/rslang/Auditor.h"

#include <iostream>

using namespace ccl;
using rslang::Syntax;

int main() {
  semantic::RSModel model{};
  model.Emplace(semantic::CstType::base);
  rslang::Interpreter interpreter{
    model.Core().RSLang(), model.Core().RSLang().ASTContext(), model.Calculations().Context()
  };

  bool failed = false;
  for (const auto hint : { Syntax::UNDEF, Syntax::MATH, Syntax::ASCII }) {
    for (const std::string input : { "", " ", "\n" }) {
      // stale errors of a previous call must not be mistaken for the errors of this one
      (void)interpreter.Evaluate("X1\\X1", Syntax::MATH);

      const auto value = interpreter.Evaluate(input, hint);
      const auto critical = interpreter.Errors().HasCriticalErrors();

      rslang::Parser parser{};
      const auto parsed = parser.Parse(input, hint);

      std::cout << "hint=" << static_cast<int>(hint) << " input=<" << (input == "\n" ? "\\n" : input) << ">"
        << " Evaluate: value=" << value.has_value() << " errors=" << interpreter.Errors().All().size()
        << " critical=" << critical
        << " | Parse: ok=" << parsed << " critical=" << parser.Errors().HasCriticalErrors() << "\n";
      if (value.has_value() == critical) {
        std::cout << "  -> Evaluate failed without reporting any critical error\n";
        failed = true;
      }
      if (parsed == parser.Errors().HasCriticalErrors()) {
        failed = true;
      }
    }
  }
  std::cout << (failed ? "FAIL" : "PASS") << std::endl;
  return failed ? 1 : 0;
}
