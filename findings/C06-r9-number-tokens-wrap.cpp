// C06-2: integer literals and projection/filter indices that do not fit the token payload are silently
// wrapped, so a syntactically valid expression yields the tree of a DIFFERENT expression.
// Expected: the leaf of the tree carries the value written in the text, or the expression is rejected.
// Observed (unmodified): "4294967297=1" -> [=[1][1]], "2147483648" -> [-2147483648], "pr65537(a)" -> [pr1[a]].
#include "ccl/rslang/Parser.h"
#include "ccl/rslang/SyntaxTree.h"

#include <iostream>
#include <string>
#include <vector>

using namespace ccl::rslang;

struct Case {
  std::string text;
  Syntax syntax;
  std::string faithful; // dump of the tree that represents the text
  bool mustParse;       // values that fit must still be accepted
};

int main() {
  const std::vector<Case> cases{
    { "2147483647=1", Syntax::MATH, "[=[2147483647][1]]", true },
    { "pr32767(a)", Syntax::MATH, "[pr32767[a]]", true },
    { "0000000000000000000000000017=1", Syntax::MATH, "[=[17][1]]", true },
    { "Fi1,32767[a,b](c)", Syntax::ASCII, "[Fi1,32767[a][b][c]]", true },

    { "2147483648=1", Syntax::MATH, "[=[2147483648][1]]", false },
    { "4294967297=1", Syntax::MATH, "[=[4294967297][1]]", false },
    { R"(4294967297 \eq 1)", Syntax::ASCII, "[=[4294967297][1]]", false },
    { "{18446744073709551617}", Syntax::MATH, "[SET[18446744073709551617]]", false },
    { "pr65537(a)", Syntax::MATH, "[pr65537[a]]", false },
    { "pr40000(a)", Syntax::ASCII, "[pr40000[a]]", false },
    { "Pr1,65538(a)", Syntax::MATH, "[Pr1,65538[a]]", false },
    { "Fi65537[a](b)", Syntax::ASCII, "[Fi65537[a][b]]", false },
  };

  bool allOK = true;
  Parser parser{};
  for (const auto& test : cases) {
    const bool parsed = parser.Parse(test.text, test.syntax);
    const std::string dump = parsed ? AST2String::Apply(parser.AST()) : std::string{ "<rejected>" };
    bool ok = false;
    if (parsed) {
      ok = dump == test.faithful;
    } else {
      ok = !test.mustParse;
    }
    std::cout << (ok ? "ok    " : "WRONG ") << test.text << " -> " << dump
      << " (text means " << test.faithful << ")\n";
    allOK = allOK && ok;
  }
  std::cout << (allOK ? "PASS" : "FAIL") << "\n";
  return allOK ? 0 : 1;
}
