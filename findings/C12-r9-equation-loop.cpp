// C12 finding 3: the admissibility check looks at every equated pair in isolation, so a table whose pairs
// close a dependency loop only TOGETHER is accepted.
//  (A) fully correct schema, table equates terms of equal typification (like with like):
//        X1, D1 := X1\X1, D2 := D3\X1, D3 := X1\X1\X1, D4 := D1\X1       table { D1 -> D2, D3 -> D4 }
//      D2 depends on D3 (replaced by D4) and D4 depends on D1 (replaced by D2): result D2 := D4\X1, D4 := D2\X1.
//      Expected: refused (or a fully correct result). Observed: accepted, result is cyclic and INCORRECT.
//  (B) the same blind spot makes IsEquatable never return: { X1 -> S1, X2 -> S2, D1 -> D2 } with S1 := B(X2*X2), S2 := B(X1):
//      typification B(X1) is rewritten to B(S1) = B(B(X2*X2)), then X2 to S2 = B(X1), then X1 again ... without end.
#include "ccl/semantic/RSForm.h"
#include "ccl/ops/RSOperations.h"
#include "ccl/rslang/Literals.h"
#include <iostream>
#include <csignal>
#include <unistd.h>

using ccl::semantic::RSForm;
using ccl::semantic::CstType;
using ccl::ops::EquationOptions;
using ccl::rslang::operator""_rs;

static bool FullyCorrect(const RSForm& s) {
  bool ok = true;
  for (const auto uid : s.List()) {
    const bool verified = s.GetParse(uid).status == ccl::semantic::ParsingStatus::VERIFIED;
    std::cout << "    " << s.GetRS(uid).alias << " := " << s.GetRS(uid).definition << (verified ? "" : "    <-- INCORRECT") << "\n";
    ok = ok && verified;
  }
  return ok;
}

static void OnAlarm(int) {
  const char msg[] = "  (B) IsEquatable did not return within 10 s\nFAIL\n";
  (void)!write(1, msg, sizeof(msg) - 1);
  _exit(1);
}

int main() {
  bool ok = true;
  {
    RSForm s{};
    s.Emplace(CstType::base);
    const auto d1 = s.Emplace(CstType::term, "X1\\X1"_rs);
    const auto d2 = s.Emplace(CstType::term, "X1"_rs);
    const auto d3 = s.Emplace(CstType::term, "X1\\X1\\X1"_rs);
    const auto d4 = s.Emplace(CstType::term, "D1\\X1"_rs);
    s.SetExpressionFor(d2, "D3\\X1"_rs);
    s.UpdateState();
    std::cout << "(A) before:\n";
    if (!FullyCorrect(s)) { std::cout << "unexpected: operand is not correct\n"; return 2; }
    const RSForm before{ s };

    EquationOptions table{};
    table.Insert(d1, d2);
    table.Insert(d3, d4);
    const bool accepted = s.Ops().IsEquatable(table);
    std::cout << "  IsEquatable = " << accepted << "\n";
    const auto done = s.Ops().Equate(table);
    if (!done.has_value()) {
      std::cout << "  table refused; schema " << (s.CoreHash() == before.CoreHash() ? "unchanged" : "CHANGED") << "\n";
      ok = ok && !accepted && s.CoreHash() == before.CoreHash() && std::size(s.Core()) == std::size(before.Core());
    } else {
      std::cout << "  table accepted, after:\n";
      if (!FullyCorrect(s)) {
        std::cout << "  result of a like-with-like equation on a fully correct schema is not fully correct\n";
        ok = false;
      }
    }
  }
  {
    RSForm s{};
    const auto x1 = s.Emplace(CstType::base);
    const auto x2 = s.Emplace(CstType::base);
    const auto s1 = s.Emplace(CstType::structured, "B(X2*X2)"_rs);
    const auto s2 = s.Emplace(CstType::structured, "B(X1)"_rs);
    const auto d1 = s.Emplace(CstType::term, "X1\\X1"_rs);
    const auto d2 = s.Emplace(CstType::term, "X1\\X1\\X1"_rs);
    s.UpdateState();
    EquationOptions table{};
    table.Insert(x1, s1);
    table.Insert(x2, s2);
    table.Insert(d1, d2);
    std::cout.flush();
    signal(SIGALRM, OnAlarm);
    alarm(10);
    const bool accepted = s.Ops().IsEquatable(table);
    alarm(0);
    std::cout << "(B) IsEquatable = " << accepted << "\n";
    ok = ok && !accepted;
  }
  std::cout << (ok ? "PASS" : "FAIL") << std::endl;
  return ok ? 0 : 1;
}
