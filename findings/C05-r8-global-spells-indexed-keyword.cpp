// C05-1: a global name whose Greek letters transliterate to "Pr<digits>" / "Fi<digits>" is printed in ASCII
// as the projection / filter keyword, so the ASCII text of a parseable MATH expression does not parse.
#include "ccl/rslang/Parser.h"
#include "ccl/rslang/RSGenerator.h"
#include <iostream>
#include <vector>

using namespace ccl::rslang;

namespace {

bool IsIdentifier(TokenID id) {
  return id == TokenID::ID_LOCAL || id == TokenID::ID_GLOBAL || id == TokenID::ID_FUNCTION ||
         id == TokenID::ID_PREDICATE || id == TokenID::ID_RADICAL;
}

// same operators, literals, indices and nesting; identifiers may differ in spelling only
bool SameShape(SyntaxTree::Cursor a, SyntaxTree::Cursor b) {
  if (a->id != b->id || a.ChildrenCount() != b.ChildrenCount()) {
    return false;
  }
  if (!IsIdentifier(a->id) && a->data != b->data) {
    return false;
  }
  for (Index i = 0; i < a.ChildrenCount(); ++i) {
    if (!SameShape(a.Child(i), b.Child(i))) {
      return false;
    }
  }
  return true;
}

} // namespace

int main() {
  const std::vector<std::string> inputs{
    "P\xCF\x81" "1\xE2\x88\xAAX1",                       // Pρ1∪X1
    "X1\xE2\x8A\x86" "F\xCE\xB9" "1",                    // X1⊆Fι1
    "(P\xCF\x81" "12,2)",                                // (Pρ12,2)
    "D{\xCE\xBE\xE2\x88\x88" "F\xCE\xB9" "3 | \xCE\xBE\xE2\x88\x88P\xCF\x81" "1}", // D{ξ∈Fι3 | ξ∈Pρ1}
    "P\xCF\x81" "1:==X1\xC3\x97X1",                      // Pρ1:==X1×X1
  };
  bool failed = false;
  Parser parser{};
  for (const auto& input : inputs) {
    if (!parser.Parse(input, Syntax::MATH)) {
      std::cout << "input does not parse (unexpected): " << input << "\n";
      failed = true;
      continue;
    }
    const auto tree = parser.ExtractAST();
    const auto math = Generator::FromTree(*tree, Syntax::MATH);
    const auto ascii = Generator::FromTree(*tree, Syntax::ASCII);
    std::cout << "MATH  : " << math << "\nASCII : " << ascii << "\n";
    if (!parser.Parse(ascii, Syntax::ASCII)) {
      std::cout << "  -> ASCII text does not parse\n";
      failed = true;
      continue;
    }
    const auto back = parser.ExtractAST();
    if (!SameShape(tree->Root(), back->Root())) {
      std::cout << "  -> ASCII text parses to a different tree\n";
      failed = true;
    }
    if (Generator::FromTree(*back, Syntax::ASCII) != ascii) {
      std::cout << "  -> ASCII text is not stable\n";
      failed = true;
    }
    // ConvertTo is the public entry: conversion back to MATH must give a parseable MATH text of the same shape
    const auto mathAgain = ConvertTo(ConvertTo(input, Syntax::ASCII), Syntax::MATH);
    if (!parser.Parse(mathAgain, Syntax::MATH) || !SameShape(tree->Root(), parser.AST().Root())) {
      std::cout << "  -> MATH -> ASCII -> MATH does not preserve the tree: " << mathAgain << "\n";
      failed = true;
    }
  }
  std::cout << (failed ? "FAIL" : "PASS") << "\n";
  return failed ? 1 : 0;
}
