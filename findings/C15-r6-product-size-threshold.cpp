// C15-2: SDDecartian::UpdateSize saturates the cardinality of a cartesian product to SET_INFINITY
// although the true product is below SET_INFINITY, and whether it does depends on the order of the factors.
#include "ccl/rslang/StructuredData.h"

#include <iostream>
#include <vector>

using namespace ccl::object;
using SD = StructuredData;

static SD Range(int count) {
  SD s = Factory::EmptySet();
  for (int i = 0; i < count; ++i) s.ModifyB().AddElement(Factory::Val(i + 1));
  return s;
}

static bool Check(const std::vector<int>& sizes) {
  std::vector<SD> factors;
  long long expected = 1;
  std::cout << "|";
  for (size_t i = 0; i < sizes.size(); ++i) {
    factors.push_back(Range(sizes[i]));
    expected *= sizes[i];
    std::cout << (i ? " x " : "") << sizes[i];
  }
  const auto product = Factory::Decartian(factors);
  const long long reported = product.B().Cardinality();
  // sanity: the lazy product itself is fine - membership and the first/last tuples are right
  std::vector<SD> lastTuple;
  for (const auto s : sizes) lastTuple.push_back(Factory::Val(s));
  const bool member = product.B().Contains(Factory::Tuple(lastTuple));
  std::cout << "| expected " << expected << " reported " << reported
            << (expected < SD::SET_INFINITY ? " (below SET_INFINITY)" : " (saturates)")
            << " contains-last=" << member << "\n";
  const long long want = expected < SD::SET_INFINITY ? expected : SD::SET_INFINITY;
  return reported == want && member;
}

int main() {
  std::cout << "SET_INFINITY = " << SD::SET_INFINITY << "\n";
  bool ok = true;
  ok = Check({ 13, 13, 97, 131, 125 }) && ok;   // 268435375 < SET_INFINITY
  ok = Check({ 131, 125, 97, 13, 13 }) && ok;   // same factors, other order
  ok = Check({ 16383, 16384 }) && ok;           // 268419072 < SET_INFINITY
  ok = Check({ 16384, 16383 }) && ok;
  ok = Check({ 16384, 16384 }) && ok;           // 2^28 > SET_INFINITY: must saturate
  ok = Check({ 16385, 16383 }) && ok;           // == SET_INFINITY exactly
  ok = Check({ 3, 4 }) && ok;
  std::cout << (ok ? "PASS" : "FAIL") << "\n";
  return ok ? 0 : 1;
}
