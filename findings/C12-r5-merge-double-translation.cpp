// C12 finding 2: merging renames a constituent's mention of ITSELF twice, so it ends up naming a different constituent.
// Operand 1:  X1, D1
// Operand 2:  X1, D1 ("пусто", text definition mentions D1 itself, D2 and X1), D2 ("парк")
// In the merged schema operand 2's D1 becomes D2 and its D2 becomes D3.
// Expected text definition of the image of D1:  "@{D2} ... @{D3} ... @{X2}"   (self, former D2, former X1)
// Observed on the unmodified code:              "@{D3} ... @{D3} ... @{X2}"   (the self mention now names the image of D2)
#include "ccl/semantic/RSForm.h"
#include "ccl/ops/RSOperations.h"
#include "ccl/rslang/Literals.h"
#include <iostream>

using ccl::semantic::RSForm;
using ccl::semantic::CstType;
using ccl::rslang::operator""_rs;

static std::string Ref(const std::string& alias) { return "@{" + alias + "|sing,nomn}"; }

int main() {
  RSForm a{}, b{};
  const auto ax1 = a.Emplace(CstType::base); a.SetTermFor(ax1, "человек");
  const auto ad1 = a.Emplace(CstType::term, "B(X1)"_rs); a.SetTermFor(ad1, "группа");

  const auto bx1 = b.Emplace(CstType::base); b.SetTermFor(bx1, "машина");
  const auto bd1 = b.Emplace(CstType::term, "X1\\X1"_rs); b.SetTermFor(bd1, "пусто");
  const auto bd2 = b.Emplace(CstType::term, "D1\\X1"_rs); b.SetTermFor(bd2, "парк");
  b.SetDefinitionFor(bd1, Ref("D1") + " - это не " + Ref("D2") + " для " + Ref("X1"));
  b.SetConventionFor(bd1, "D1 D2");
  std::cout << "operand2 D1 text definition: " << b.GetText(bd1).definition.Raw() << "  =>  " << b.GetText(bd1).definition.Str() << "\n";

  bool ok = true;
  const auto check = [&](const char* what, const RSForm& result, const ccl::EntityTranslation& tr) {
    const auto self = result.GetRS(tr(bd1)).alias;
    const auto other = result.GetRS(tr(bd2)).alias;
    const auto base = result.GetRS(tr(bx1)).alias;
    const auto expected = Ref(self) + " - это не " + Ref(other) + " для " + Ref(base);
    const auto observed = result.GetText(tr(bd1)).definition.Raw();
    std::cout << what << ": image of D1 is " << self << ", image of D2 is " << other << "\n"
              << "  expected: " << expected << "\n  observed: " << observed
              << "  =>  " << result.GetText(tr(bd1)).definition.Str() << "\n";
    if (observed != expected) { ok = false; }
    const auto expectedConv = self + " " + other;
    if (result.GetRS(tr(bd1)).convention != expectedConv) {
      std::cout << "  convention expected: " << expectedConv << " observed: " << result.GetRS(tr(bd1)).convention << "\n";
      ok = false;
    }
  };

  {
    RSForm merged{ a };
    const auto tr = merged.Ops().MergeWith(b);
    check("RSForm::Ops().MergeWith", merged, tr);
  }
  {
    ccl::ops::BinarySynthes op{ a, b, ccl::ops::EquationOptions{} };
    if (!op.IsCorrectlyDefined()) { std::cout << "unexpected: merge refused\n"; return 2; }
    const auto result = op.Execute();
    check("BinarySynthes", *result, op.Translations().at(1));
  }
  std::cout << (ok ? "PASS" : "FAIL") << std::endl;
  return ok ? 0 : 1;
}
