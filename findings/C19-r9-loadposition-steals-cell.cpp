// C19-2: ossGridFacet::LoadPosition puts a pictogram on an occupied cell and the former occupant
// is left without any grid cell (serialising the schema then throws).
//
// Build: g++ -std=c++20 -O0 -w -DNDEBUG $(cat <lib>/inc.txt) demo.cpp <lib>/libccl.a -o demo
#include "ccl/oss/OSSchema.h"
#include "ccl/tools/JSON.h"

#include <iostream>
#include <map>

using ccl::oss::OSSchema;
using ccl::oss::PictID;

static int CheckGrid(const OSSchema& oss, const char* when) {
  int failures = 0;
  std::map<PictID, int> cells{};
  for (const auto& [position, pid] : oss.Grid().data()) {
    ++cells[pid];
    if (!oss.Contains(pid)) {
      std::cout << when << ": cell (" << position.row << "," << position.column << ") holds unknown pictogram " << pid << "\n";
      ++failures;
    }
  }
  for (const auto& pict : oss) {
    if (cells[pict.uid] != 1 || !oss.Grid()(pict.uid).has_value()) {
      std::cout << when << ": pictogram " << pict.uid << " has " << cells[pict.uid] << " grid cells\n";
      ++failures;
    }
  }
  return failures;
}

int main() {
  int failures = 0;
  {
    OSSchema oss{};
    const auto first = oss.InsertBase()->uid;
    const auto second = oss.InsertBase()->uid;
    const auto child = oss.InsertOperation(first, second)->uid;
    failures += CheckGrid(oss, "after inserts");

    // move the first pictogram to the cell of the second one
    const auto occupied = oss.Grid()(second).value();
    oss.Grid().LoadPosition(first, occupied);
    failures += CheckGrid(oss, "after LoadPosition on an occupied cell");

    try {
      const nlohmann::ordered_json saved = oss;
      OSSchema reloaded{};
      saved.get_to(reloaded);
      if (std::size(reloaded) != 3) {
        std::cout << "reloaded schema has " << std::size(reloaded) << " pictograms\n";
        ++failures;
      }
      failures += CheckGrid(reloaded, "after reload");
    } catch (const std::exception& error) {
      std::cout << "serialisation throws: " << error.what() << "\n";
      ++failures;
    }

    // a position for a pictogram that does not exist must not create a cell
    OSSchema other{};
    const auto only = other.InsertBase()->uid;
    other.Grid().LoadPosition(only + 1U, ccl::oss::GridPosition{ 5, 5 });
    failures += CheckGrid(other, "after LoadPosition for an unknown pictogram");
    (void)child;
  }
  std::cout << (failures == 0 ? "PASS" : "FAIL") << "\n";
  return failures == 0 ? 0 : 1;
}
