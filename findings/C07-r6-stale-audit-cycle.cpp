// C13-2: a dependency loop created by an edit keeps the VERIFIED status (and a made-up typification) in the source,
// while the extracted schema - which is parsed from scratch - reports the same constituents INCORRECT.
//
// History: X1, D1 := X1, D2 := D1 ; then SetExpressionFor(D1, "D2 u D2"). Now D1 and D2 define each other.
// Source: both VERIFIED with type B(X1). OpExtractBasis{D2} / OpMaxPart{X1}: both INCORRECT.
// Second history: X1, D1 := X1 ; SetExpressionFor(D1, "B(D1)") - D1 stays VERIFIED in the source with type BB(X1), computed from
// its own previous type.
//
// Prints FAIL (exit 1) if a result constituent changes its correctness status / typification (up to renaming)
// or a mention changes what it resolves to; PASS (exit 0) otherwise.
#include "ccl/ops/RSOperations.h"
#include "ccl/rslang/RSExpr.h"

#include <iostream>
#include <map>
#include <set>

using namespace ccl;
using semantic::RSForm;
using semantic::CstType;

static const std::string UNION = "\xE2\x88\xAA";

static std::string Describe(const semantic::ParsingInfo& info) {
  std::string result = info.status == semantic::ParsingStatus::VERIFIED ? "VERIFIED" :
    info.status == semantic::ParsingStatus::INCORRECT ? "INCORRECT" : "UNKNOWN";
  if (info.exprType.has_value()) {
    const auto* typification = info.Typification();
    result += typification != nullptr ? " " + typification->ToString() : " LOGIC";
  }
  return result;
}

static void Dump(const char* title, const RSForm& schema) {
  std::cout << "  " << title << ":\n";
  for (const auto uid : schema.List()) {
    std::cout << "    " << schema.GetRS(uid).alias << " := " << schema.GetRS(uid).definition
      << "    [" << Describe(schema.GetParse(uid)) << "]\n";
  }
}

// Checks the clauses of the property that relate a result to its source. Result constituents keep the uid of their origin.
static bool CheckResult(const char* opName, const RSForm& source, const RSForm& result) {
  auto ok = true;
  StrSubstitutes renaming{};
  for (const auto uid : result.List()) {
    if (!source.Contains(uid)) {
      std::cout << opName << ": result constituent has no origin\n";
      return false;
    }
    renaming.insert({ source.GetRS(uid).alias, result.GetRS(uid).alias });
  }
  for (const auto uid : result.List()) {
    const auto& srcCst = source.GetRS(uid);
    const auto& resCst = result.GetRS(uid);

    // every mention keeps what it resolves to (or stays unresolved)
    std::set<std::string> expectedMentions{};
    for (const auto& name : rslang::ExtractUGlobals(srcCst.definition)) {
      const auto srcTarget = source.Core().FindAlias(name);
      if (!srcTarget.has_value()) {
        expectedMentions.insert(name);
        if (const auto captured = result.Core().FindAlias(name); captured.has_value()) {
          ok = false;
          std::cout << opName << ": " << srcCst.alias << " mentions " << name << " which names nothing in the source, but in the result "
            << resCst.alias << " mentions " << name << " which names the former " << source.GetRS(captured.value()).alias << "\n";
        }
      } else if (!result.Contains(srcTarget.value())) {
        ok = false;
        std::cout << opName << ": " << srcCst.alias << " depends on " << name << " which is not in the result\n";
      } else {
        expectedMentions.insert(renaming.at(name));
      }
    }
    std::set<std::string> mentions{};
    for (const auto& name : rslang::ExtractUGlobals(resCst.definition)) {
      mentions.insert(name);
    }
    if (ok && mentions != expectedMentions) {
      ok = false;
      std::cout << opName << ": mentions of " << resCst.alias << " are not the renamed mentions of " << srcCst.alias << "\n";
    }

    // correctness status and typification up to the renaming
    auto expected = Describe(source.GetParse(uid));
    rslang::SubstituteGlobals(expected, renaming);
    if (const auto got = Describe(result.GetParse(uid)); got != expected) {
      ok = false;
      std::cout << opName << ": " << srcCst.alias << " is [" << expected << "] in the source but "
        << resCst.alias << " is [" << got << "] in the result\n";
    }
  }
  if (!ok) {
    Dump("source", source);
    Dump("result", result);
  }
  return ok;
}

int main() {
  static const std::string BOOLEAN = "\xE2\x84\xAC";
  auto ok = true;
  {
    RSForm schema{};
    const auto x1 = schema.Emplace(CstType::base);
    const auto d1 = schema.Emplace(CstType::term, "X1");
    const auto d2 = schema.Emplace(CstType::term, "D1");
    schema.SetExpressionFor(d1, "D2" + UNION + "D2");
    {
      const auto result = ops::OpExtractBasis{ schema, { d2 } }.Execute();
      ok = result != nullptr && CheckResult("mutual loop, OpExtractBasis{D2}", schema, *result) && ok;
    }
    {
      const auto result = ops::OpMaxPart{ schema, { x1 } }.Execute();
      ok = result != nullptr && CheckResult("mutual loop, OpMaxPart{X1}", schema, *result) && ok;
    }
  }
  {
    RSForm schema{};
    const auto x1 = schema.Emplace(CstType::base);
    const auto d1 = schema.Emplace(CstType::term, "X1");
    schema.SetExpressionFor(d1, BOOLEAN + "(D1)");
    {
      const auto result = ops::OpExtractBasis{ schema, { d1 } }.Execute();
      ok = result != nullptr && CheckResult("self loop, OpExtractBasis{D1}", schema, *result) && ok;
    }
    {
      const auto result = ops::OpMaxPart{ schema, { x1 } }.Execute();
      ok = result != nullptr && CheckResult("self loop, OpMaxPart{X1}", schema, *result) && ok;
    }
  }
  std::cout << (ok ? "PASS" : "FAIL") << "\n";
  return ok ? 0 : 1;
}
