// C12 finding 1: BinarySynthes / DeleteDuplicates return a translation that points at an erased constituent.
// Operand 1:  X1 ("человек"),  D1 := B(X1)
// Operand 2:  X1 ("человек"),  D1 := B(X1),  D2 := B(X1)
// Merge without equations: every constituent of operand 2 is a duplicate of one of operand 1, so the result is {X1, D}.
// Expected: both translations map every operand constituent to a constituent that exists in the result.
#include "ccl/semantic/RSForm.h"
#include "ccl/ops/RSOperations.h"
#include "ccl/rslang/Literals.h"
#include <iostream>

using ccl::semantic::RSForm;
using ccl::semantic::CstType;
using ccl::rslang::operator""_rs;

static bool CheckTranslation(const char* name, const RSForm& operand, const ccl::EntityTranslation& tr, const RSForm& result) {
  bool ok = true;
  for (const auto uid : operand.List()) {
    if (!tr.ContainsKey(uid)) {
      std::cout << name << ": " << operand.GetRS(uid).alias << " (uid " << uid << ") has no image\n";
      ok = false;
    } else if (!result.Contains(tr(uid))) {
      std::cout << name << ": " << operand.GetRS(uid).alias << " (uid " << uid << ") -> uid " << tr(uid)
                << " which is NOT a constituent of the result\n";
      ok = false;
    }
  }
  return ok;
}

int main() {
  bool ok = true;
  {
    RSForm a{}, b{};
    const auto ax1 = a.Emplace(CstType::base); a.SetTermFor(ax1, "человек");
    a.Emplace(CstType::term, "B(X1)"_rs);
    const auto bx1 = b.Emplace(CstType::base); b.SetTermFor(bx1, "человек");
    b.Emplace(CstType::term, "B(X1)"_rs);
    b.Emplace(CstType::term, "B(X1)"_rs);

    ccl::ops::BinarySynthes op{ a, b, ccl::ops::EquationOptions{} };
    if (!op.IsCorrectlyDefined()) { std::cout << "unexpected: merge refused\n"; return 2; }
    const auto result = op.Execute();
    std::cout << "result has " << std::size(result->Core()) << " constituents\n";
    ok = CheckTranslation("synthesis operand1", a, op.Translations().at(0), *result) && ok;
    ok = CheckTranslation("synthesis operand2", b, op.Translations().at(1), *result) && ok;
  }
  {
    // Same defect through RSForm::Ops().DeleteDuplicates() on a single schema
    RSForm s{};
    const auto x1 = s.Emplace(CstType::base); s.SetTermFor(x1, "человек");
    const auto x2 = s.Emplace(CstType::base); s.SetTermFor(x2, "человек");
    s.Emplace(CstType::term, "B(X1)"_rs);
    s.Emplace(CstType::term, "B(X2)"_rs);
    s.Emplace(CstType::term, "B(X2)"_rs);
    const RSForm before{ s };
    const auto tr = s.Ops().DeleteDuplicates();
    for (const auto& [from, to] : tr) {
      if (!s.Contains(to)) {
        std::cout << "DeleteDuplicates: " << before.GetRS(from).alias << " (uid " << from << ") -> uid " << to
                  << " (" << before.GetRS(to).alias << ") which was itself erased\n";
        ok = false;
      }
    }
  }
  std::cout << (ok ? "PASS" : "FAIL") << std::endl;
  return ok ? 0 : 1;
}
