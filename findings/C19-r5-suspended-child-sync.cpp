// Demo for seeded defect C19-2 (see notes.txt).
// Build: g++ -std=c++20 -O0 -w -DNDEBUG $(cat <out>/inc.txt) demo.cpp <out>/libccl.a -o demo
#include "ccl/semantic/RSForm.h"
#include "ccl/oss/OSSchema.h"
#include "ccl/ops/RSOperations.h"
#include "ccl/env/cclEnvironment.h"
#include "ccl/tools/JSON.h"

#include <algorithm>
#include <iostream>
#include <list>
#include <memory>
#include <string>
#include <vector>




class FakeTRS : public ccl::src::Source, public ccl::types::Observer {
  using SrcType = ccl::src::SrcType;
  using DataStream = ccl::src::DataStream;
  using RSForm = ccl::semantic::RSForm;

public:
  RSForm schema{};
  std::u8string fullName{};
  bool unsavable{ false };
  bool unwritable{ false };

private:
  bool saved{ true };
  bool open{ true };

public:
  ~FakeTRS() {
    schema.RemoveObserver(*this);
  }
  FakeTRS() {
    schema.AddObserver(*this);
  }
  FakeTRS(const FakeTRS&) = delete;
  FakeTRS& operator=(const FakeTRS&) = delete;

  FakeTRS(FakeTRS&& predecessor) noexcept {
    schema = predecessor.schema;
    fullName = predecessor.fullName;
    open = predecessor.open;
    saved = predecessor.saved;
    unsavable = predecessor.unsavable;

    schema.RemoveObserver(predecessor);
    schema.AddObserver(*this);
  }

  FakeTRS& operator=(FakeTRS&& predecessor) noexcept {
    schema = predecessor.schema;
    fullName = predecessor.fullName;
    open = predecessor.open;
    saved = predecessor.saved;
    unsavable = predecessor.unsavable;

    schema.RemoveObserver(predecessor);
    schema.AddObserver(*this);
    return *this;
  }

public:
  [[nodiscard]] bool IsOpened() const { return open; }

  void OpenNoTrigger() { open = true; }

  void TriggerOpen() {
    open = true;
    ccl::Environment::Sources().OnSourceOpen(*this);
  };

  void TriggerClose() { 
    ccl::Environment::Sources().OnSourceClose(*this); 
    open = false; 
    saved = true; 
  };

  void TriggerSave() {
    if (!saved) {
      ccl::Environment::Sources().OnSourceChange(*this);
      saved = true;
    }
  };

  void OnObserve(const ccl::types::Message& /*msg*/) override {
    saved = false;
  }

  [[nodiscard]] ccl::change::Hash CoreHash() const override { return schema.CoreHash(); }
  [[nodiscard]] ccl::change::Hash FullHash() const override { return schema.FullHash(); }
  [[nodiscard]] bool WriteData(ccl::meta::UniqueCPPtr<DataStream> data) override {
    if (unwritable) {
      return false;
    } else {
      const auto* rsData = dynamic_cast<const RSForm*>(data.get());
      if (rsData == nullptr) {
        return false;
      } else {
        schema = *rsData;
        return true;
      }
    }
  }
  [[nodiscard]] const DataStream* ReadData() const override { return &schema; }
  [[nodiscard]] DataStream* AccessData() override { return &schema; }
  [[nodiscard]] SrcType Type() const noexcept override { return SrcType::rsDoc; }
};

class FakeSourceManager final : public ccl::SourceManager {
  using Container = std::list<FakeTRS>;

  using SrcType = ccl::src::SrcType;
  using Source = ccl::src::Source;
  using Descriptor = ccl::src::Descriptor;

public:
  bool rejectDomain{ false };

private:
  Container sources{};

public:
  const FakeTRS& DummyCast(const Source& src) const { return dynamic_cast<const FakeTRS&>(src); }
  FakeTRS& DummyCast(Source& src) { return dynamic_cast<FakeTRS&>(src); }

  void DestroySource(FakeTRS& src) {
    for (auto it = std::begin(sources); it != std::end(sources); ++it) {
      if (&*it == &src) {
        if (src.IsOpened()) {
          SourceManager::OnSourceClose(src);
        }
        sources.erase(it);
        return;
      }
    }
  }

  void ReplaceSourceData(FakeTRS& src, const ccl::semantic::RSForm& newSchema) {
    for (auto it = std::begin(sources); it != std::end(sources); ++it) {
      if (&*it == &src) {
        if (src.IsOpened()) {
          SourceManager::OnSourceClose(src);
        }
        it->schema = newSchema;
        return;
      }
    }
  }

  FakeTRS& CreateNewRS() {
    static auto uid = 0;
    ++uid;
    auto& result = DummyCast(*CreateNew(Descriptor{ SrcType::rsDoc, ccl::to_u8string(uid) }));
    result.fullName = ccl::to_u8string(uid) + u8".trs";
    return result;
  }

public:
  [[nodiscard]] bool TestDomain(const Descriptor& global, const std::u8string& domain) const override {
    return !rejectDomain && 
      (std::empty(domain) || global.name.find(domain) == 0);
  }

  [[nodiscard]] Descriptor Convert2Local(const Descriptor& global, const std::u8string& domain) const override {
    auto local = global;
    if (!std::empty(domain)) {
      local.name.erase(0, domain.length());
    }
    return local;
  }

  [[nodiscard]] Descriptor Convert2Global(const Descriptor& local, const std::u8string& domain) const override {
    return Descriptor{ local.type, domain + local.name };
  }


  [[nodiscard]] Source* Find(const Descriptor& desc) override {
    if (desc.type != SrcType::rsDoc) {
      return SourceManager::Find(desc);
    } else {
      for (auto& src : sources) {
        if (src.fullName == desc.name && src.IsOpened()) {
          return &src;
        }
      }
      return nullptr;
    }
  }

  [[nodiscard]] Descriptor CreateLocalDesc(SrcType type, std::u8string localName) const override {
    if (type != SrcType::rsDoc) {
      return SourceManager::CreateLocalDesc(type, localName);
    } else {
      if (std::empty(localName)) {
        static auto i = 0;
        localName = u8"local" + ccl::to_u8string(++i); // Note: making new local name always different
      }
      localName += u8".trs";
      return Descriptor{ type, localName };
    }
  }

  [[nodiscard]] Descriptor GetDescriptor(const Source& src) const override {
    if (const auto* srcPtr = dynamic_cast<const FakeTRS*>(&src); srcPtr != nullptr) {
      return Descriptor{ SrcType::rsDoc, srcPtr->fullName };
    } else {
      return Descriptor{};
    }
  }

  [[nodiscard]] Source* CreateNew(const Descriptor& desc) override {
    if (Find(desc) != nullptr) {
      return nullptr;
    } else if (desc.type != SrcType::rsDoc) {
      return SourceManager::CreateNew(desc);
    } else {
      sources.emplace_back(FakeTRS{});
      sources.back().fullName = desc.name;
      return &sources.back();
    }
  }

  [[nodiscard]] Source* Open(const Descriptor& desc) override {
    if (desc.type == SrcType::rsDoc) {
      for (auto& src : sources) {
        if (src.fullName == desc.name) {
          DummyCast(src).TriggerOpen();
          return &src;
        }
      }
    }
    return nullptr;
  }

  void Close(Source& src) override {
    SourceManager::OnSourceChange(src);
    SourceManager::OnSourceClose(src);
    DummyCast(src).TriggerSave();
    DummyCast(src).TriggerClose();
  }

  [[nodiscard]] bool ChangeDescriptor(const Descriptor& desc, const Descriptor& newDesc) override {
    if (desc.type != newDesc.type ||
        desc.type != SrcType::rsDoc) {
      return false;
    } else if (auto* targetSrc = Find(desc); targetSrc == nullptr || Find(newDesc) != nullptr) {
      return false;
    } else {
      for (const auto& src : sources) {
        if (src.fullName == newDesc.name) {
          return false;
        }
      }
      DummyCast(*targetSrc).fullName = newDesc.name;
      return true;
    }
  }

  [[nodiscard]] bool SaveState(Source& src) override {
    if (DummyCast(src).IsOpened() && !DummyCast(src).unsavable) {
      DummyCast(src).TriggerSave();
      return true;
    } else {
      return false;
    }
  }

  void Discard(const Descriptor& desc) override {
    if (auto* src = Open(desc); src != nullptr) {
      src->ReleaseClaim();
      Close(*src);
    }
  }
};

// ---------------------------------------------------------------------------------------------
using namespace ccl;
using oss::PictID;
using oss::OSSchema;
using semantic::CstType;
using ops::Status;

static FakeSourceManager& SM() { return dynamic_cast<FakeSourceManager&>(Environment::Sources()); }

static int failures = 0;
#define CHECK(cond) do { if (!(cond)) { ++failures; std::cout << "  violated: " #cond " (line " << __LINE__ << ")\n"; } } while (false)

static const char* Name(Status s) {
  switch (s) {
  case Status::undefined: return "undefined";
  case Status::defined: return "defined";
  case Status::done: return "done";
  case Status::outdated: return "outdated";
  case Status::broken: return "broken";
  }
  return "?";
}

template<typename T>
static bool SameSet(std::vector<T> a, std::vector<T> b) {
  std::sort(begin(a), end(a));
  std::sort(begin(b), end(b));
  return a == b;
}

// Scenario: diamond-shaped graph  A   B   C
//                                  \ / \ /
static int Scenario() {
  OSSchema oss{};
  auto& srcs = oss.Src();
  auto& ops = oss.Ops();
  const auto A = oss.InsertBase()->uid, A2 = oss.InsertBase()->uid, B = oss.InsertBase()->uid, X = oss.InsertBase()->uid;
  auto& sa = SM().CreateNewRS(); auto& sa2 = SM().CreateNewRS(); auto& sb = SM().CreateNewRS(); auto& sx = SM().CreateNewRS();
  for (auto* s : { &sa, &sa2, &sb, &sx }) s->schema.Emplace(CstType::base);
  CHECK(srcs.ConnectPict2Src(A, sa)); CHECK(srcs.ConnectPict2Src(A2, sa2)); CHECK(srcs.ConnectPict2Src(B, sb)); CHECK(srcs.ConnectPict2Src(X, sx));
  const auto D = oss.InsertOperation(A, A2)->uid;
  const auto C = oss.InsertOperation(D, B)->uid;
  const auto E = oss.InsertOperation(B, X)->uid;
  for (auto op : { D, C, E }) CHECK(ops.InitFor(op, ops::Type::rsMerge));
  CHECK(ops.Execute(D)); CHECK(ops.Execute(C)); CHECK(ops.Execute(E));
  std::cout << "  all executed: D=" << Name(ops.StatusOf(D)) << " C=" << Name(ops.StatusOf(C)) << " E=" << Name(ops.StatusOf(E)) << "\n";
  struct Counter : types::Observer { std::u8string name{}; int changes{ 0 };
    void OnObserve(const types::Message& msg) override { if (const auto* ch = dynamic_cast<const SourceManager::SrcChanged*>(&msg); ch != nullptr && ch->srcID.name == name) ++changes; } } announced{};
  announced.name = sb.fullName; Environment::Sources().AddObserver(announced);
  sb.schema.Emplace(CstType::base);            // B edited, not saved
  sa.schema.Emplace(CstType::base); sa.TriggerSave();   // A edited and saved -> D outdated
  std::cout << "  after edits:  D=" << Name(ops.StatusOf(D)) << " C=" << Name(ops.StatusOf(C)) << " E=" << Name(ops.StatusOf(E)) << "\n";
  CHECK(ops.Execute(D));
  std::cout << "  Execute(D):   D=" << Name(ops.StatusOf(D)) << " C=" << Name(ops.StatusOf(C)) << " E=" << Name(ops.StatusOf(E)) << "\n";
  std::cout << "  announcements of B's change by the source manager during Execute(D): " << announced.changes << "\n";
  Environment::Sources().RemoveObserver(announced);
  std::cout << "  hash recorded for B is current: " << (srcs(B)->coreHash == sb.schema.CoreHash()) << "\n";
  sb.TriggerSave();
  std::cout << "  B saved:      C=" << Name(ops.StatusOf(C)) << " E=" << Name(ops.StatusOf(E)) << "  (E was computed from the old B)\n";
  CHECK(ops.StatusOf(E) != Status::done);
  return failures;
}
int main() {
  Environment::Instance().SetSourceManager(std::make_unique<FakeSourceManager>());
  int result = Scenario();
  Environment::Instance().SetSourceManager(std::make_unique<SourceManager>());
  std::cout << (result == 0 ? "PASS" : "FAIL") << std::endl;
  return result == 0 ? 0 : 1;
}
