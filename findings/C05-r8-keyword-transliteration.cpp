// C05 finding 3: the fixed transliteration of Greek local names can produce a reserved
// word of the ASCII syntax (card, bool, debool, red, pr<N>), so a parseable MATH expression
// is printed in ASCII as text in which the local variable has become an operator keyword.
//
// PASS criterion: for every MATH input that parses, the ASCII text re-parses in ASCII, the
// re-parsed tree has the same shape and token ids as the original, every local name is still
// a local name, distinct originals stay distinct, and printing the re-parsed tree in ASCII
// reproduces the text (stable).
#include "ccl/rslang/Parser.h"
#include "ccl/rslang/RSGenerator.h"
#include <iostream>

using namespace ccl::rslang;

static bool SameShape(SyntaxTree::Cursor lhs, SyntaxTree::Cursor rhs) {
  if (lhs->id != rhs->id || lhs.ChildrenCount() != rhs.ChildrenCount()) {
    return false;
  }
  if (lhs->id == TokenID::ID_LOCAL && lhs->ToString(Syntax::ASCII) != rhs->ToString(Syntax::ASCII)) {
    return false;
  }
  for (Index i = 0; i < lhs.ChildrenCount(); ++i) {
    if (!SameShape(lhs.Child(i), rhs.Child(i))) {
      return false;
    }
  }
  return true;
}

static int Check(const std::string& text) {
  Parser parser{};
  if (!parser.Parse(text, Syntax::MATH)) {
    std::cout << "  MATH input must parse: " << text << "\n";
    return 1;
  }
  const SyntaxTree tree = parser.AST();
  const auto ascii = Generator::FromTree(tree, Syntax::ASCII);
  Parser again{};
  const bool parsed = again.Parse(ascii, Syntax::ASCII);
  const bool same = parsed && SameShape(tree.Root(), again.AST().Root());
  const bool stable = parsed && Generator::FromTree(again.AST(), Syntax::ASCII) == ascii;
  // there and back again: MATH -> ASCII -> MATH must still be an expression of the same shape
  const auto back = ConvertTo(ConvertTo(text, Syntax::ASCII), Syntax::MATH);
  Parser third{};
  const bool backOk = third.Parse(back, Syntax::MATH) && SameShape(tree.Root(), third.AST().Root());
  std::cout << "  " << text << " -> ASCII [" << ascii << "] reparse=" << parsed
            << " sameShape=" << same << " stable=" << stable << " back=[" << back << "] backOk=" << backOk << "\n";
  return (same && stable && backOk) ? 0 : 1;
}

int main() {
  int bad = 0;
  bad += Check("\xCF\x87\xCE\xB1\xCF\x81\xCE\xB4\xE2\x88\x88X1");                           // χαρδ∈X1      -> card
  bad += Check("\xE2\x88\x80\xCF\x81\xCE\xB5\xCE\xB4\xE2\x88\x88X1 \xCF\x81\xCE\xB5\xCE\xB4\xE2\x88\x88S1"); // ∀ρεδ∈X1 ρεδ∈S1 -> red
  bad += Check("D{\xCE\xB2\xCE\xBF\xCE\xBF\xCE\xBB\xE2\x88\x88X1 | \xCE\xB2\xCE\xBF\xCE\xBF\xCE\xBB=\xCE\xB2\xCE\xBF\xCE\xBF\xCE\xBB}"); // D{βοολ∈X1 | βοολ=βοολ}
  bad += Check("\xCE\xB4\xCE\xB5" "bool\xE2\x88\x88X1");                                     // δεbool∈X1    -> debool
  bad += Check("\xCF\x80\xCF\x81" "1\xE2\x88\x88X1");                                       // πρ1∈X1       -> pr1
  bad += Check("[p\xCF\x81" "12\xE2\x88\x88X1] p\xCF\x81" "12\xE2\x88\x88S1");                 // [pρ12∈X1] pρ12∈S1
  // controls: ordinary Greek names, and ASCII names that merely start like a keyword
  bad += Check("\xE2\x88\x80\xCE\xBE\xE2\x88\x88X1 \xCE\xBE\xE2\x88\x88S1");                 // ∀ξ∈X1 ξ∈S1
  bad += Check("\xCF\x87\xCE\xB1\xCF\x81\xCE\xB4" "s\xE2\x88\x88X1");                         // χαρδs∈X1     -> cards
  bad += Check("\xCF\x80\xCF\x81\xE2\x88\x88X1");                                           // πρ∈X1        -> pr
  std::cout << (bad == 0 ? "PASS" : "FAIL") << "\n";
  return bad == 0 ? 0 : 1;
}
