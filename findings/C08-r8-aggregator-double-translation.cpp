// C08 finding 1: merge operations translate the mentions of an inserted constituent twice
// (first with the one-entry map {own old name -> own new name} inside RSCore::InsertCopy, then with the complete map),
// so for a chain X1->X2, X2->X3 the constituent's mention of itself ends up naming ANOTHER constituent.
#include "ccl/semantic/RSForm.h"
#include "ccl/ops/RSAggregator.h"
#include <iostream>

using namespace ccl;
using namespace ccl::semantic;

static int failures = 0;
static void Expect(const std::string& what, const std::string& got, const std::string& expected) {
  const bool ok = got == expected;
  std::cout << (ok ? "  ok   " : "  BAD  ") << what << ": got [" << got << "] expected [" << expected << "]\n";
  if (!ok) ++failures;
}

int main() {
  { // 1. rsOperationFacet::MergeWith (used by BinarySynthes)
    std::cout << "MergeWith:\n";
    RSForm dst{};
    dst.Emplace(CstType::base); // X1 is taken in destination
    RSForm src{};
    const auto x1 = src.Emplace(CstType::base);
    const auto x2 = src.Emplace(CstType::base);
    src.SetConventionFor(x1, "X1 is people; X2 is things");
    src.SetDefinitionFor(x1, "\xD1\x81\xD0\xBC. @{X1|sing,nomn} \xD0\xB8 @{X2|sing,nomn}");
    src.SetConventionFor(x2, "X2 self; X1 other");
    const auto tr = dst.Ops().MergeWith(src);
    const auto n1 = dst.GetRS(tr(x1)).alias; // X2
    const auto n2 = dst.GetRS(tr(x2)).alias; // X3
    Expect("new names", n1 + "," + n2, "X2,X3");
    Expect("convention of copy of X1", dst.GetRS(tr(x1)).convention, n1 + " is people; " + n2 + " is things");
    Expect("text definition of copy of X1", dst.GetText(tr(x1)).definition.Raw(),
           "\xD1\x81\xD0\xBC. @{" + n1 + "|sing,nomn} \xD0\xB8 @{" + n2 + "|sing,nomn}");
    Expect("convention of copy of X2", dst.GetRS(tr(x2)).convention, n2 + " self; " + n1 + " other");
  }
  { // 2. RSAggregator::Merge (rsOperationFacet::ExtrapolateFromPrevious)
    std::cout << "RSAggregator::Merge:\n";
    RSForm out{};
    const auto o1 = out.Emplace(CstType::base);
    out.Emplace(CstType::base); // X2 is taken in new version
    RSForm prev{};
    const auto p1 = prev.Emplace(CstType::base);
    const auto p2 = prev.Emplace(CstType::base); // user-added X2
    const auto p3 = prev.Emplace(CstType::base); // user-added X3
    prev.SetConventionFor(p2, "X2 is people; X3 is things; X1 inherited");
    prev.SetConventionFor(p3, "X3 self; X2 other");
    EntityTranslation oldToNew{};
    oldToNew.Insert(p1, o1);
    const auto tr = ops::RSAggregator(out).Merge(prev, oldToNew);
    if (!tr.has_value()) { std::cout << "FAIL (merge refused)\n"; return 1; }
    const auto n2 = out.GetRS(tr.value()(p2)).alias; // X3
    const auto n3 = out.GetRS(tr.value()(p3)).alias; // X4
    Expect("new names", n2 + "," + n3, "X3,X4");
    Expect("convention of copy of X2", out.GetRS(tr.value()(p2)).convention, n2 + " is people; " + n3 + " is things; X1 inherited");
    Expect("convention of copy of X3", out.GetRS(tr.value()(p3)).convention, n3 + " self; " + n2 + " other");
  }
  std::cout << (failures == 0 ? "PASS" : "FAIL") << "\n";
  return failures == 0 ? 0 : 1;
}
