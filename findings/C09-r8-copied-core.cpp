// C09-1: a copy- or move-constructed RSCore keeps ordering its list by the kinds stored in the
// ORIGINAL object (CstList::types still captures the source RSCore).
#include "ccl/semantic/RSCore.h"

#include <iostream>
#include <memory>
#include <vector>

using ccl::EntityUID;
using ccl::semantic::ConceptRecord;
using ccl::semantic::CstType;
using ccl::semantic::RSCore;

namespace {

int failures = 0;

void Expect(const bool condition, const char* message) {
  if (!condition) {
    ++failures;
    std::cout << "  violated: " << message << "\n";
  }
}

int Group(const CstType type) {
  switch (type) {
  case CstType::base: return 0;
  case CstType::constant: return 1;
  case CstType::structured: return 2;
  default: return 3;
  }
}

// list contains every constituent exactly once and keeps the kind groups ordered
void CheckListInvariant(const RSCore& core, const char* label) {
  std::cout << label << ": schema has " << core.size() << " constituents, list has " << core.List().size() << ":";
  std::vector<EntityUID> order(core.List().begin(), core.List().end());
  int group = 0;
  bool ordered = true;
  for (const auto uid : order) {
    std::cout << " " << core.GetRS(uid).alias;
    const auto next = Group(core.GetRS(uid).type);
    ordered = ordered && next >= group;
    group = next;
  }
  std::cout << "\n";
  Expect(order.size() == core.size(), "list contains each constituent exactly once");
  Expect(ordered, "base sets before constants before structures before derived");
}

} // namespace

int main() {
  // Scenario A: copy, then Emplace into the copy
  {
    RSCore source{};
    source.Emplace(CstType::base);
    source.Emplace(CstType::term, "X1");
    RSCore copy{ source };
    try {
      copy.Emplace(CstType::constant);
    } catch (const std::exception& e) {
      ++failures;
      std::cout << "  Emplace into copy threw: " << e.what() << "\n";
    }
    CheckListInvariant(copy, "A copy+Emplace");
  }
  // Scenario B: no exception, silent misordering: identifier re-used in the copy with another kind
  {
    RSCore source{};
    const auto x1 = source.Emplace(CstType::base);
    source.Emplace(CstType::constant);
    source.Emplace(CstType::term, "X1");
    RSCore copy{ source };
    copy.Erase(x1);
    ConceptRecord record{};
    record.uid = x1;
    record.alias = "D2";
    record.type = CstType::term;
    try {
      const auto d2 = copy.InsertCopy(record);
      Expect(d2 == x1, "free identifier is kept");
    } catch (const std::exception& e) {
      ++failures;
      std::cout << "  InsertCopy into copy threw: " << e.what() << "\n";
    }
    CheckListInvariant(copy, "B copy+Erase+InsertCopy");
  }
  // Scenario C: move construction
  {
    auto source = std::make_unique<RSCore>();
    source->Emplace(CstType::term, "X1");
    RSCore moved{ std::move(*source) };
    try {
      moved.Emplace(CstType::base);
    } catch (const std::exception& e) {
      ++failures;
      std::cout << "  Emplace into moved-to object threw: " << e.what() << "\n";
    }
    CheckListInvariant(moved, "C move+Emplace");
  }
  std::cout << (failures == 0 ? "PASS" : "FAIL") << "\n";
  return failures == 0 ? 0 : 1;
}
