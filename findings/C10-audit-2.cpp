// C10-2: saving a loaded schema does not reproduce the document when a term has several manual word forms.
#include "ccl/tools/JSON.h"
#include "ccl/semantic/RSForm.h"
#include "ccl/api/RSFormJA.h"
#include <iostream>

using JSON = nlohmann::ordered_json;
using ccl::semantic::RSForm;
using ccl::semantic::CstType;
using ccl::lang::Morphology;
using ccl::lang::Grammem;

int main() {
  RSForm schema{};
  const auto x1 = schema.Emplace(CstType::base);
  schema.SetTermFor(x1, "\xD1\x87\xD0\xB5\xD0\xBB\xD0\xBE\xD0\xB2\xD0\xB5\xD0\xBA"); // chelovek
  schema.SetTermFormFor(x1, "cheloveka", Morphology{ Grammem::sing, Grammem::gent });
  schema.SetTermFormFor(x1, "lyudey", Morphology{ Grammem::plur, Grammem::gent });
  schema.SetTermFormFor(x1, "lyudi", Morphology{ Grammem::plur, Grammem::nomn });

  bool ok = true;
  // 1. C++ API: document -> object -> document
  const auto document1 = JSON(schema);
  RSForm loaded{};
  document1.get_to(loaded);
  const auto document2 = JSON(loaded);
  std::cout << "saved   : " << document1["items"][0]["term"]["forms"].dump() << "\n";
  std::cout << "re-saved: " << document2["items"][0]["term"]["forms"].dump() << "\n";
  if (document1.dump() != document2.dump()) {
    std::cout << "saving the loaded schema gives another document\n";
    ok = false;
  }

  // 2. what pyconcept.check_schema does: FromJSON + ToJSON, applied to its own output
  const auto checked1 = ccl::api::RSFormJA::FromJSON(document1.dump()).ToJSON();
  const auto checked2 = ccl::api::RSFormJA::FromJSON(checked1).ToJSON();
  if (checked1 != checked2) {
    std::cout << "FromJSON/ToJSON is not stable on its own output\n";
    ok = false;
  }
  std::cout << (ok ? "PASS" : "FAIL") << "\n";
  return ok ? 0 : 1;
}
