// C13-1: alias renumbering after extraction captures a name that did not resolve in the source.
//
// History: X1, X2, X3, D1 := X2 u X3 ; then X2 is erased (an ordinary edit that leaves a dangling mention).
// In the source D1 is INCORRECT (X2 is undefined). OpMaxPart{X1,X3} and OpExtractBasis{X1,D1} copy X1, X3, D1 and
// renumber X3 -> X2, so the dangling mention "X2" now resolves to the former X3: D1 becomes "X2 u X2" and VERIFIED.
//
// Prints FAIL (exit 1) if a result constituent changes its correctness status / typification (up to renaming)
// or a mention changes what it resolves to; PASS (exit 0) otherwise.
#include "ccl/ops/RSOperations.h"
#include "ccl/rslang/RSExpr.h"

#include <iostream>
#include <map>
#include <set>

using namespace ccl;
using semantic::RSForm;
using semantic::CstType;

static const std::string UNION = "\xE2\x88\xAA";

static std::string Describe(const semantic::ParsingInfo& info) {
  std::string result = info.status == semantic::ParsingStatus::VERIFIED ? "VERIFIED" :
    info.status == semantic::ParsingStatus::INCORRECT ? "INCORRECT" : "UNKNOWN";
  if (info.exprType.has_value()) {
    const auto* typification = info.Typification();
    result += typification != nullptr ? " " + typification->ToString() : " LOGIC";
  }
  return result;
}

static void Dump(const char* title, const RSForm& schema) {
  std::cout << "  " << title << ":\n";
  for (const auto uid : schema.List()) {
    std::cout << "    " << schema.GetRS(uid).alias << " := " << schema.GetRS(uid).definition
      << "    [" << Describe(schema.GetParse(uid)) << "]\n";
  }
}

// Checks the clauses of the property that relate a result to its source. Result constituents keep the uid of their origin.
static bool CheckResult(const char* opName, const RSForm& source, const RSForm& result) {
  auto ok = true;
  StrSubstitutes renaming{};
  for (const auto uid : result.List()) {
    if (!source.Contains(uid)) {
      std::cout << opName << ": result constituent has no origin\n";
      return false;
    }
    renaming.insert({ source.GetRS(uid).alias, result.GetRS(uid).alias });
  }
  for (const auto uid : result.List()) {
    const auto& srcCst = source.GetRS(uid);
    const auto& resCst = result.GetRS(uid);

    // every mention keeps what it resolves to (or stays unresolved)
    std::set<std::string> expectedMentions{};
    for (const auto& name : rslang::ExtractUGlobals(srcCst.definition)) {
      const auto srcTarget = source.Core().FindAlias(name);
      if (!srcTarget.has_value()) {
        expectedMentions.insert(name);
        if (const auto captured = result.Core().FindAlias(name); captured.has_value()) {
          ok = false;
          std::cout << opName << ": " << srcCst.alias << " mentions " << name << " which names nothing in the source, but in the result "
            << resCst.alias << " mentions " << name << " which names the former " << source.GetRS(captured.value()).alias << "\n";
        }
      } else if (!result.Contains(srcTarget.value())) {
        ok = false;
        std::cout << opName << ": " << srcCst.alias << " depends on " << name << " which is not in the result\n";
      } else {
        expectedMentions.insert(renaming.at(name));
      }
    }
    std::set<std::string> mentions{};
    for (const auto& name : rslang::ExtractUGlobals(resCst.definition)) {
      mentions.insert(name);
    }
    if (ok && mentions != expectedMentions) {
      ok = false;
      std::cout << opName << ": mentions of " << resCst.alias << " are not the renamed mentions of " << srcCst.alias << "\n";
    }

    // correctness status and typification up to the renaming
    auto expected = Describe(source.GetParse(uid));
    rslang::SubstituteGlobals(expected, renaming);
    if (const auto got = Describe(result.GetParse(uid)); got != expected) {
      ok = false;
      std::cout << opName << ": " << srcCst.alias << " is [" << expected << "] in the source but "
        << resCst.alias << " is [" << got << "] in the result\n";
    }
  }
  if (!ok) {
    Dump("source", source);
    Dump("result", result);
  }
  return ok;
}

int main() {
  RSForm schema{};
  const auto x1 = schema.Emplace(CstType::base);
  const auto x2 = schema.Emplace(CstType::base);
  const auto x3 = schema.Emplace(CstType::base);
  const auto d1 = schema.Emplace(CstType::term, "X2" + UNION + "X3");
  schema.Erase(x2);

  auto ok = true;
  {
    ops::OpMaxPart operation{ schema, { x1, x3 } };
    const auto result = operation.Execute();
    if (result == nullptr) {
      std::cout << "OpMaxPart: not applicable\n";
      ok = false;
    } else {
      ok = CheckResult("OpMaxPart{X1,X3}", schema, *result) && ok;
    }
  }
  {
    ops::OpExtractBasis operation{ schema, { x1, d1 } };
    const auto result = operation.Execute();
    if (result == nullptr) {
      std::cout << "OpExtractBasis: not applicable\n";
      ok = false;
    } else {
      ok = CheckResult("OpExtractBasis{X1,D1}", schema, *result) && ok;
    }
  }
  std::cout << (ok ? "PASS" : "FAIL") << "\n";
  return ok ? 0 : 1;
}
