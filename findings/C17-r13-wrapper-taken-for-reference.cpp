// C17-1: a bracket-balanced marker that ENCLOSES a well-formed reference is itself accepted as an
// entity reference (its "name" then contains "@{"), which hides the inner reference and makes the
// canonical spelling unreadable. Incomplete fix c56f287.
#include "ccl/lang/RefsManager.h"
#include "ccl/lang/LexicalTerm.h"
#include "ccl/lang/ManagedText.h"
#include "ccl/lang/EntityTermContext.hpp"

#include <iostream>
#include <map>
#include <set>

using namespace ccl;
using namespace ccl::lang;

struct Ctx : EntityTermContext {
  std::map<std::string, LexicalTerm> terms;
  const LexicalTerm* At(const std::string& e) const override {
    auto it = terms.find(e);
    return it == terms.end() ? nullptr : &it->second;
  }
  bool Contains(const std::string& e) const override { return terms.count(e) > 0; }
};

static int failures = 0;
static void Expect(bool ok, const std::string& what) {
  std::cout << (ok ? "  ok   " : "  BAD  ") << what << "\n";
  if (!ok) ++failures;
}

static std::vector<std::string> Spell(const std::vector<Reference>& refs) {
  std::vector<std::string> out;
  for (const auto& r : refs) out.push_back(r.ToString());
  return out;
}

// write-back must give a text that carries the same references and resolves to the same text
static void RoundTrip(const Ctx& ctx, const std::string& text) {
  std::cout << "text: " << text << "\n";
  RefsManager mgr{ ctx };
  const auto resolved = mgr.Resolve(text);
  const auto before = Spell(mgr.get());
  const auto back = mgr.OutputRefs(resolved);
  RefsManager again{ ctx };
  const auto resolvedAgain = again.Resolve(back);
  std::cout << "  resolved:   " << resolved << "\n  write-back: " << back << "\n  re-resolved: " << resolvedAgain << "\n";
  Expect(Spell(again.get()) == before, "the written-back text carries the same references");
  Expect(resolvedAgain == resolved, "the written-back text resolves to the same text");
}

int main() {
  Ctx ctx;
  ctx.terms.emplace("X1", LexicalTerm{ "man" });

  // 1. c56f287's own scenario with the usual two-grammeme form: the reference to X1 must be found
  {
    const std::string text = "see @{note @{X1|nomn,sing} more}";
    std::cout << "text: " << text << "\n";
    const auto refs = Reference::ExtractAll(text);
    Expect(refs.size() == 1 && refs[0].IsEntity() && refs[0].GetEntity() == "X1"
           && refs[0].position == StrRange{ 11, 26 }, "ExtractAll finds exactly @{X1|nomn,sing} at [11,26)");
    const auto mentioned = ManagedText{ text }.Referals();
    Expect(mentioned == std::unordered_set<std::string>{ "X1" }, "Referals() == { X1 }");
    Expect(RefsManager{ ctx }.Resolve(text) == "see @{note man more}", "Resolve replaces the inner reference only");
    ManagedText renamed{ text };
    renamed.TranslateRaw([](const std::string& name) -> std::optional<std::string> {
      if (name == "X1") { return "X7"; } return std::nullopt; });
    Expect(renamed.Raw() == "see @{note @{X7|nomn,sing} more}", "renaming X1 reaches the reference");
  }
  // 2. write-back is stable
  RoundTrip(ctx, "see @{note @{X1|nomn,sing} more}");
  // 3. canonical spelling of an inner legacy reference must not turn the enclosing plain text into a reference
  RoundTrip(ctx, "@{UNKN@{X1|nomn|3per}@{1|}|nomn}");

  std::cout << (failures == 0 ? "PASS" : "FAIL") << "\n";
  return failures == 0 ? 0 : 1;
}
