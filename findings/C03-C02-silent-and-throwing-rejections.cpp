#include "ccl/semantic/RSForm.h"
#include <iostream>
using namespace ccl; using namespace ccl::semantic;
[[maybe_unused]] static void show(RSForm& f, EntityUID u) {
  const auto& info = f.GetParse(u);
  std::cout << f.GetRS(u).alias << " := " << f.GetRS(u).definition << "  status=" << (int)info.status << "\n";
}
static void direct(RSForm& f, const std::string& expr) {
  auto p = f.Core().RSLang().MakeAuditor();
  bool ok = false;
  try { ok = p->CheckExpression(expr); } catch (const std::exception& e) { std::cout << "  `" << expr << "` THROWS " << e.what() << "\n"; return; }
  std::cout << "  `" << expr << "` ok=" << ok << " errors=" << p->Errors().All().size();
  for (auto& e : p->Errors().All()) std::cout << " [" << std::hex << e.eid << std::dec << "@" << e.position << "]";
  std::cout << "\n";
}
int main() {
  RSForm f;
  auto x1 = f.Emplace(CstType::base);
  auto a1 = f.Emplace(CstType::axiom, "1=1");
  auto d1 = f.Emplace(CstType::term, "card(X1)");
  auto fn = f.Emplace(CstType::function, "[a\xE2\x88\x88\xE2\x84\xAC(X1)] a");
  direct(f, "X1\xE2\x88\xAA" "A1");          // F-C03-1: debool of a LOGIC operand
  direct(f, "X1\xE2\x88\xAA" "X1");
  direct(f, "S1::=D1");                       // F-C03-2: structure over a non-collection
  direct(f, "F1[A1]");                        // CheckFuncArguments with a LOGIC argument
  direct(f, "F1[1=1]");
  for (const char* e : {"A1=X1", "X1=A1", "{A1}", "{X1, A1}", "(A1,X1)", "(X1,A1)", "card(A1)", "A1\xE2\x88\x88X1", "X1\xE2\x88\x88" "A1", "pr1(A1)", "Pr1(A1)", "red(A1)", "bool(A1)", "debool(A1)",
     "D{\xCE\xBE\xE2\x88\x88" "A1 | 1=1}", "\xE2\x88\x80\xCE\xBE\xE2\x88\x88" "A1 1=1", "A1+1", "A1<1", "A1\xC3\x97X1", "X1\xC3\x97" "A1", "\xE2\x84\xAC(A1)", "A1\xE2\x8A\x86X1",
     "R{\xCE\xBE:=A1 | \xCE\xBE\xE2\x88\xAAX1}", "I{(\xCE\xBE) | \xCE\xBE:\xE2\x88\x88" "A1}", "I{A1 | \xCE\xBE:\xE2\x88\x88X1}", "Fi1[A1](X1)", "Fi1[X1](A1)", "S1::=A1", "D1:==A1", "A1[X1]", "\xC2\xAC" "X1", "X1 & X1", "X1\xE2\x87\x92" "A1"})
    direct(f, e);
}
