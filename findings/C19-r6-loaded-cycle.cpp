// C19-3: ossGraphFacet::LoadParent (used by the JSON loader) refuses self-loops, duplicate edges and
// two-element cycles, but accepts an edge that closes a longer cycle. A loaded document can therefore
// leave the schema with a cyclic parent relation (and Execute then recurses through PrepareParents forever).
//
// build: g++ -std=c++20 -O0 -w -DNDEBUG $(cat <lib>/inc.txt) demo.cpp <lib>/libccl.a -o demo
// run:   ./demo          structural check only
//        ./demo execute  additionally calls ExecuteAll on the loaded schema (stack overflow on the unmodified library)
#include "ccl/semantic/RSForm.h"
#include "ccl/oss/OSSchema.h"
#include "ccl/env/cclEnvironment.h"
#include "ccl/ops/RSOperations.h"
#include "ccl/tools/JSON.h"

#include <iostream>
#include <list>
#include <memory>
#include <set>
#include <functional>

using namespace ccl;
using semantic::CstType;
using semantic::RSForm;
using JSON = nlohmann::ordered_json;

// ---- minimal in-memory source manager (same behaviour as the upstream test double) ----
class MemSrc : public src::Source, public types::Observer {
public:
  RSForm schema{};
  std::u8string fullName{};
  bool saved{ true };
  bool open{ true };

  MemSrc() { schema.AddObserver(*this); }
  MemSrc(const MemSrc&) = delete;
  MemSrc& operator=(const MemSrc&) = delete;
  ~MemSrc() override { schema.RemoveObserver(*this); }

  void OnObserve(const types::Message&) override { saved = false; }
  // announce unsaved changes to the environment (what an editor does on save / on request)
  void Announce() {
    if (!saved) {
      Environment::Sources().OnSourceChange(*this);
      saved = true;
    }
  }
  change::Hash CoreHash() const override { return schema.CoreHash(); }
  change::Hash FullHash() const override { return schema.FullHash(); }
  bool WriteData(meta::UniqueCPPtr<src::DataStream> data) override {
    const auto* rs = dynamic_cast<const RSForm*>(data.get());
    if (rs == nullptr) { return false; }
    schema = *rs;
    return true;
  }
  const src::DataStream* ReadData() const override { return &schema; }
  src::DataStream* AccessData() override { return &schema; }
  src::SrcType Type() const noexcept override { return src::SrcType::rsDoc; }
};

class MemManager final : public SourceManager {
  std::list<MemSrc> sources{};
  int counter{ 0 };
public:
  MemSrc& Cast(src::Source& s) { return dynamic_cast<MemSrc&>(s); }
  MemSrc& NewDoc() {
    auto name = to_u8string(std::string("doc") + std::to_string(++counter) + ".trs");
    return Cast(*CreateNew(src::Descriptor{ src::SrcType::rsDoc, name }));
  }
  bool TestDomain(const src::Descriptor&, const std::u8string&) const override { return true; }
  src::Descriptor Convert2Local(const src::Descriptor& g, const std::u8string&) const override { return g; }
  src::Descriptor Convert2Global(const src::Descriptor& l, const std::u8string&) const override { return l; }
  src::Descriptor CreateLocalDesc(src::SrcType type, std::u8string name) const override {
    static int i = 0;
    if (std::empty(name)) { name = to_u8string(std::string("local") + std::to_string(++i)); }
    return src::Descriptor{ type, name + u8".trs" };
  }
  src::Source* Find(const src::Descriptor& desc) override {
    for (auto& s : sources) { if (s.fullName == desc.name && s.open) { return &s; } }
    return nullptr;
  }
  src::Descriptor GetDescriptor(const src::Source& s) const override {
    return src::Descriptor{ src::SrcType::rsDoc, dynamic_cast<const MemSrc&>(s).fullName };
  }
  src::Source* CreateNew(const src::Descriptor& desc) override {
    if (Find(desc) != nullptr) { return nullptr; }
    sources.emplace_back();
    sources.back().fullName = desc.name;
    return &sources.back();
  }
  src::Source* Open(const src::Descriptor& desc) override {
    for (auto& s : sources) {
      if (s.fullName == desc.name) { s.open = true; OnSourceOpen(s); return &s; }
    }
    return nullptr;
  }
  void Close(src::Source& s) override {
    Cast(s).Announce();
    OnSourceClose(s);
    Cast(s).open = false;
  }
  bool SaveState(src::Source& s) override {
    if (!Cast(s).open) { return false; }
    Cast(s).Announce();
    return true;
  }
  void Discard(const src::Descriptor& desc) override {
    if (auto* s = Open(desc); s != nullptr) { s->ReleaseClaim(); Close(*s); }
  }
};

static const char* Name(ops::Status s) {
  switch (s) {
  case ops::Status::undefined: return "undefined";
  case ops::Status::defined: return "defined";
  case ops::Status::done: return "done";
  case ops::Status::outdated: return "outdated";
  case ops::Status::broken: return "broken";
  }
  return "?";
}


static bool HasCycle(const oss::OSSchema& oss) {
  std::set<oss::PictID> done{};
  std::set<oss::PictID> onPath{};
  std::function<bool(oss::PictID)> visit = [&](const oss::PictID pid) {
    if (onPath.contains(pid)) { return true; }
    if (done.contains(pid)) { return false; }
    onPath.insert(pid);
    for (const auto parent : oss.Graph().ParentsOf(pid)) {
      if (visit(parent)) { return true; }
    }
    onPath.erase(pid);
    done.insert(pid);
    return false;
  };
  for (const auto& pict : oss) {
    if (visit(pict.uid)) { return true; }
  }
  return false;
}

int main(int argc, char** argv) {
  const bool execute = argc > 1 && std::string(argv[1]) == "execute";
  Environment::Instance().SetSourceManager(std::make_unique<MemManager>());
  auto& mgr = dynamic_cast<MemManager&>(Environment::Sources());
  bool failed = false;
  {
    // a sound schema: two bases and a chain of three operations
    JSON document{};
    oss::PictID a{}, b{}, p1{}, p2{}, p3{};
    {
      oss::OSSchema oss{};
      a = oss.InsertBase()->uid;
      b = oss.InsertBase()->uid;
      auto& docA = mgr.NewDoc();
      auto& docB = mgr.NewDoc();
      docA.schema.Emplace(CstType::base);
      docB.schema.Emplace(CstType::base);
      oss.Src().ConnectPict2Src(a, docA);
      oss.Src().ConnectPict2Src(b, docB);
      p1 = oss.InsertOperation(a, b)->uid;
      p2 = oss.InsertOperation(p1, b)->uid;
      p3 = oss.InsertOperation(p2, b)->uid;
      oss.Ops().InitFor(p1, ops::Type::rsMerge);
      oss.Ops().InitFor(p2, ops::Type::rsMerge);
      oss.Ops().InitFor(p3, ops::Type::rsMerge);
      oss.Ops().ExecuteAll();
      // operand edited afterwards: everything downstream has to be redone
      docA.schema.Emplace(CstType::base);
      docA.Announce();
      oss.Ops().Execute(p1);
      document = JSON(oss);
      std::cout << "original schema cyclic: " << HasCycle(oss) << "\n";
    }

    // the stored document is damaged: the first operand of p1 now reads p3 instead of a
    for (auto& edge : document["connections"]) {
      if (edge[0].get<oss::PictID>() == p1 && edge[1].get<oss::PictID>() == a) {
        edge[1] = p3;
      }
    }
    for (auto& item : document["items"]) {
      if (item.contains("attachedOperation")) {
        item["attachedOperation"]["isOutdated"] = true;
      }
    }

    oss::OSSchema loaded{};
    document.get_to(loaded);
    const auto cyclic = HasCycle(loaded);
    std::cout << "loaded schema: " << loaded.size() << " pictograms, " << std::size(loaded.Graph().EdgeList())
              << " connections, cyclic: " << cyclic << "\n";
    if (cyclic) {
      std::cout << "parent relation p1 <- p3 <- p2 <- p1 was accepted\n";
      failed = true;
    }

    // the same through the public API directly
    oss::OSSchema direct{};
    const auto base = direct.InsertBase()->uid;
    const auto x = direct.LoadPict(oss::Pict{ 101 }, oss::GridPosition{ 1, 0 }, src::Handle{ src::SrcType::rsDoc }, std::make_unique<oss::OperationHandle>()).uid;
    const auto y = direct.LoadPict(oss::Pict{ 102 }, oss::GridPosition{ 2, 0 }, src::Handle{ src::SrcType::rsDoc }, std::make_unique<oss::OperationHandle>()).uid;
    const auto z = direct.LoadPict(oss::Pict{ 103 }, oss::GridPosition{ 3, 0 }, src::Handle{ src::SrcType::rsDoc }, std::make_unique<oss::OperationHandle>()).uid;
    const bool e1 = direct.Graph().LoadParent(x, base);
    const bool e2 = direct.Graph().LoadParent(y, base);
    const bool e3 = direct.Graph().LoadParent(z, base);
    const bool e4 = direct.Graph().LoadParent(y, x);
    const bool e5 = direct.Graph().LoadParent(z, y);
    const bool back2 = direct.Graph().LoadParent(x, y); // closes a cycle of length 2: refused
    const bool back3 = direct.Graph().LoadParent(x, z); // closes a cycle of length 3
    std::cout << "LoadParent: sound edges " << e1 << e2 << e3 << e4 << e5
              << ", edge closing a 2-cycle " << back2 << ", edge closing a 3-cycle " << back3
              << ", cyclic afterwards: " << HasCycle(direct) << "\n";
    if (back3 || HasCycle(direct)) {
      failed = true;
    }

    if (execute) {
      std::cout << "ExecuteAll on the loaded schema..." << std::endl;
      loaded.Ops().ExecuteAll();
      std::cout << "returned\n";
    }
  }
  Environment::Instance().SetSourceManager(std::make_unique<SourceManager>());
  std::cout << (failed ? "FAIL" : "PASS") << "\n";
  return failed ? 1 : 0;
}
