// C01-1: an enumerated declaration (∀x,a∈Dom / ∃x,a∈Dom) is normalised into nested quantifiers that each hold a
// copy of Dom. The inner copy is evaluated inside the scope of the preceding variables; if Dom itself binds a
// variable with the same name (accepted by the type checker, warning only) the copy overwrites the outer variable.
//
// Build: g++ -std=c++20 -O0 -w -DNDEBUG $(cat <lib>/inc.txt) demo.cpp <lib>/libccl.a -o demo
#include "ccl/rslang/Interpreter.h"
#include "ccl/semantic/RSModel.h"

#include <iostream>
#include <unordered_map>

using namespace ccl;
using namespace ccl::rslang;
using ccl::object::Factory;
using ccl::object::StructuredData;

struct Context final : public TypeContext {
  std::unordered_map<std::string, ExpressionType> types{};
  std::unordered_map<std::string, StructuredData> data{};

  const ExpressionType* TypeFor(const std::string& name) const final {
    return types.contains(name) ? &types.at(name) : nullptr;
  }
  const FunctionArguments* FunctionArgsFor(const std::string& /*name*/) const final { return nullptr; }
  std::optional<TypeTraits> TraitsFor(const Typification& type) const final {
    if (type == Typification::Integer()) return TraitsIntegral;
    return TraitsNominal;
  }
};

static int failures = 0;

static void Expect(Context& ctx, const std::string& expr, Syntax syntax, const std::string& expected) {
  Interpreter interpreter{
    ctx,
    [](const std::string&) -> const SyntaxTree* { return nullptr; },
    [&ctx](const std::string& name) -> std::optional<StructuredData> {
      if (ctx.data.contains(name)) return ctx.data.at(name);
      return std::nullopt;
    }
  };
  const auto value = interpreter.Evaluate(expr, syntax);
  std::string text = "<no value>";
  if (value.has_value()) {
    if (std::holds_alternative<bool>(*value)) {
      text = std::get<bool>(*value) ? "TRUE" : "FALSE";
    } else {
      text = std::get<StructuredData>(*value).ToString();
    }
  }
  const bool ok = text == expected;
  failures += ok ? 0 : 1;
  std::cout << (ok ? "  ok   " : "  BAD  ") << expr << "  =>  " << text << "   (expected " << expected << ")\n";
}

int main() {
  Context ctx;
  ctx.types.emplace("X1", Typification("X1").Bool());
  ctx.data.emplace("X1", Factory::SetV({ 0, 1, 2 }));

  // 1. reference: domain binds another name - correct on every version
  Expect(ctx, "D{z∈X1 | ∃x,a∈D{y∈X1 | 1=1} (x=z & a=z)}", Syntax::MATH, "{0, 1, 2}");
  // 2. the same expression, the bound variable of the domain is called x
  Expect(ctx, "D{z∈X1 | ∃x,a∈D{x∈X1 | 1=1} (x=z & a=z)}", Syntax::MATH, "{0, 1, 2}");
  // 3. ASCII variant
  Expect(ctx, R"(D{z \in X1 | \E x,a \in D{x \in X1 | 1 \eq 1} (x \eq z \and a \eq z)})", Syntax::ASCII, "{0, 1, 2}");
  // 4. truth value: there are two different elements in a 3-element set
  Expect(ctx, "∀x,a∈D{x∈X1 | 1=1} x=a", Syntax::MATH, "FALSE");
  // 5. only the preceding variables are affected (correct on every version); other binder kinds inside the domain
  Expect(ctx, "card(I{(x,a,b) | x:∈X1; a:∈X1; b:∈X1; ∃c,d,e∈I{e | e:∈X1} (c=x & d=a & e=b)})", Syntax::MATH, "27");
  Expect(ctx, "card(D{z∈X1×X1 | ∃x,a∈I{x | x:∈X1} (x=pr1(z) & a=pr2(z))})", Syntax::MATH, "9");

  // 6. tuple patterns: both copies of the domain are normalised to the same variable @xy
  Expect(ctx, "card(D{z∈X1×X1 | ∃(x,y),a∈D{(x,y)∈X1×X1 | 1=1} ((x,y)=z & a=z)})", Syntax::MATH, "9");
  // 7. three variables, binders nested inside the domain
  Expect(ctx, "D{z∈X1 | ∃x,a,b∈D{x∈X1 | ∃a∈X1 a=x} (x=z & a=z & b=z)}", Syntax::MATH, "{0, 1, 2}");

  // 8. the same through RSModel
  {
    using namespace ccl::semantic;
    RSModel model{};
    const auto x1 = model.Emplace(CstType::base);
    model.Values().SetBasicText(x1, TextInterpretation{ { "a", "b", "c" } });
    const auto d1 = model.Emplace(CstType::term, "D{z∈X1 | ∃x,a∈D{x∈X1 | 1=1} (x=z & a=z)}");
    const bool calculated = model.Calculations().Calculate(d1);
    const auto value = model.Values().SDataFor(d1);
    const std::string text = calculated && value.has_value() ? value->ToString() : "<no value>";
    const bool ok = text == "{1, 2, 3}";
    failures += ok ? 0 : 1;
    std::cout << (ok ? "  ok   " : "  BAD  ") << "RSModel D1 = " << text << "   (expected {1, 2, 3})\n";
  }

  std::cout << (failures == 0 ? "PASS" : "FAIL") << "\n";
  return failures == 0 ? 0 : 1;
}
