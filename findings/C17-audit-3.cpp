// C17-3: collaboration offsets outside int16_t silently wrap around (65537 -> 1, 65535 -> -1, 99999 -> -31073)
#include "ccl/lang/RefsManager.h"
#include "ccl/lang/LexicalTerm.h"
#include "ccl/lang/TextEnvironment.h"
#include <iostream>

using namespace ccl;
using namespace ccl::lang;

class Ctx : public EntityTermContext {
public:
  std::unordered_map<std::string, LexicalTerm> terms;
  bool Contains(const std::string& e) const override { return terms.contains(e); }
  const LexicalTerm* At(const std::string& e) const override {
    auto it = terms.find(e); return it == terms.end() ? nullptr : &it->second;
  }
};

// Processor that makes the chosen master visible in the resolved text
class MarkingProcessor : public TextProcessor {
public:
  std::string InflectDependant(const std::string& dependant, const std::string& main) const override {
    return dependant + "<" + main + ">";
  }
};

static int failures = 0;
static void Check(bool ok, const std::string& what) {
  std::cout << (ok ? "  ok   " : "  BAD  ") << what << "\n";
  if (!ok) ++failures;
}

// Acceptable outcomes for an offset the implementation cannot represent:
//  - the marker is not a reference (stays plain text), or
//  - it is a reference that keeps its offset (so it reports an invalid offset and is written back unchanged).
// Not acceptable: it silently becomes a reference with another offset.
static void Probe(RefsManager& mgr, const std::string& text, const std::string& marker) {
  const auto resolved = mgr.Resolve(text);
  const auto back = mgr.OutputRefs(resolved);
  std::cout << "\"" << text << "\"\n    resolved: \"" << resolved << "\"\n    written back: \"" << back << "\"\n";
  Check(back == text, "write-back restores the original text");
  Check(resolved.find("<Test>") == std::string::npos, "the out-of-range offset is not resolved against a master");
  const auto single = Reference::Parse(marker);
  Check(!single.IsValid() || single.ToString() == marker, "Parse(" + marker + ") is rejected or keeps its offset");
}

int main() {
  TextEnvironment::SetProcessor(std::make_unique<MarkingProcessor>());
  Ctx ctx;
  ctx.terms.emplace("X1", LexicalTerm{ "Test" });
  RefsManager mgr{ ctx };

  // control: in-range offsets
  {
    const std::string text = "@{1|basic} @{X1|nomn} @{-1|basic}";
    const auto resolved = mgr.Resolve(text);
    Check(resolved == "basic<Test> Test basic<Test>" && mgr.OutputRefs(resolved) == text, "control: offsets 1 and -1");
    const std::string far = "@{32767|basic} @{X1|nomn} @{-32768|basic}";
    const auto resolvedFar = mgr.Resolve(far);
    Check(mgr.OutputRefs(resolvedFar) == far, "control: offsets 32767 and -32768 survive write-back");
  }
  Probe(mgr, "@{65537|basic} @{X1|nomn}", "@{65537|basic}");
  Probe(mgr, "@{X1|nomn} @{65535|basic}", "@{65535|basic}");
  Probe(mgr, "@{X1|nomn} @{99999|basic}", "@{99999|basic}");
  Probe(mgr, "@{X1|nomn} @{-65537|basic}", "@{-65537|basic}");

  std::cout << (failures == 0 ? "PASS" : "FAIL") << "\n";
  return failures == 0 ? 0 : 1;
}
