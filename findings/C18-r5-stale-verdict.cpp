// C18 finding 1: a reused SchemaAuditor keeps the verdict flags (and prefixLen) of the previous
// call when CheckConstituenta() rejects the constituenta before the expression is analysed.
#include "ccl/semantic/Schema.h"
#include "ccl/semantic/SchemaAuditor.h"

#include <iostream>
#include <sstream>

using ccl::semantic::Schema;
using ccl::semantic::SchemaAuditor;
using ccl::semantic::CstType;

static std::string Observe(SchemaAuditor& a, bool result) {
  std::ostringstream o;
  const bool valueResult = a.IsTypeCorrect() ? a.CheckValue() : false; // what RSFormJA-style clients do next
  o << "result=" << result
    << " checkValue=" << valueResult
    << " parsed=" << a.IsParsed()
    << " typeOK=" << a.IsTypeCorrect()
    << " valueOK=" << a.IsValueCorrect()
    << " valueClass=" << static_cast<int>(a.GetValueClass())
    << " prefixLen=" << a.prefixLen
    << " errors=";
  for (const auto& e : a.Errors().All()) {
    o << std::hex << e.eid << std::dec << "@" << e.position << " ";
  }
  return o.str();
}

int main() {
  Schema schema{};
  schema.Emplace(1, "X1", CstType::base);

  int failures = 0;
  const auto compare = [&](const char* what, const std::string& reused, const std::string& fresh) {
    std::cout << what << "\n  reused: " << reused << "\n  fresh : " << fresh << "\n";
    if (reused != fresh) {
      ++failures;
    }
  };

  // --- history: a correct term, fully checked -------------------------------------------
  auto reused = schema.MakeAuditor();
  const bool ok = reused->CheckConstituenta("D1", "X1\\X1", CstType::term);
  const bool vok = reused->CheckValue();
  std::cout << "predecessor: CheckConstituenta(D1, X1\\X1, term)=" << ok << " CheckValue=" << vok << "\n";

  // --- 1) base set with a non-empty definition: rejected with cstNonemptyBase ------------
  {
    auto fresh = schema.MakeAuditor();
    const auto r1 = Observe(*reused, reused->CheckConstituenta("X2", "X1", CstType::base));
    const auto r2 = Observe(*fresh, fresh->CheckConstituenta("X2", "X1", CstType::base));
    compare("CheckConstituenta(X2, \"X1\", base)", r1, r2);
  }
  // --- 2) term with an empty definition: rejected with cstEmptyDerived -------------------
  {
    auto fresh = schema.MakeAuditor();
    const auto r1 = Observe(*reused, reused->CheckConstituenta("D2", "", CstType::term));
    const auto r2 = Observe(*fresh, fresh->CheckConstituenta("D2", "", CstType::term));
    compare("CheckConstituenta(D2, \"\", term)", r1, r2);
  }
  // --- 3) plain expression after a constituenta: prefixLen must describe this call -------
  {
    auto aud = schema.MakeAuditor();
    auto fresh = schema.MakeAuditor();
    aud->CheckConstituenta("D1", "X1\\X1", CstType::term);
    const auto r1 = Observe(*aud, aud->CheckExpression("X1\\X1"));
    const auto r2 = Observe(*fresh, fresh->CheckExpression("X1\\X1"));
    compare("CheckExpression(\"X1\\X1\") after CheckConstituenta", r1, r2);
  }

  std::cout << (failures == 0 ? "PASS" : "FAIL") << "\n";
  return failures == 0 ? 0 : 1;
}
