// C03-2: the declared argument list reported for a function definition is wrong when a
// bound variable was declared (and went out of scope) inside an argument domain:
//  (a) an argument that re-uses such a name (legal: "reuse after scope end is a warning")
//      is silently dropped from the list;
//  (b) if a later argument domain contains a recursion R{...}, the stored positions of the
//      already collected arguments go stale and the list names the wrong variables.
#include "ccl/semantic/RSForm.h"
#include "ccl/rslang/Literals.h"

#include <iostream>
#include <string>

using namespace ccl;
using semantic::CstType;
using rslang::operator""_rs;

static int failures = 0;

static std::string ArgsOf(const rslang::FunctionArguments& args) {
  std::string result{};
  for (const auto& arg : args) {
    if (!result.empty()) {
      result += ", ";
    }
    result += arg.name + ":" + arg.type.ToString();
  }
  return "[" + result + "]";
}

static void ExpectArgs(const semantic::RSForm& form, const std::string& ascii, const std::string& expected) {
  auto auditor = form.Core().RSLang().MakeAuditor();
  std::string actual = "<rejected>";
  try {
    if (auditor->CheckExpression(ascii, rslang::Syntax::ASCII)) {
      actual = ArgsOf(auditor->GetDeclarationArgs());
    }
  } catch (const std::exception& e) {
    actual = std::string{"<exception: "} + e.what() + ">";
  }
  const bool good = actual == expected;
  std::cout << (good ? "  ok   " : "  BAD  ") << ascii << "\n         args = " << actual << "   (expected " << expected << ")\n";
  if (!good) {
    ++failures;
  }
}

int main() {
  semantic::RSForm form{};
  form.Emplace(CstType::base);  // X1
  form.Emplace(CstType::base);  // X2

  // sanity
  ExpectArgs(form, R"([a \in X1, b \in X2] (a, b))", "[a:X1, b:X2]");
  ExpectArgs(form, R"([a \in D{t \in X1 | t \eq t}, b \in X2] (a, b))", "[a:X1, b:X2]");

  // (a) second argument re-uses the name of a variable bound inside the first domain
  ExpectArgs(form, R"([a \in D{b \in X1 | b \eq b}, b \in X2] (a, b))", "[a:X1, b:X2]");

  // (b) recursion in the domain of a later argument
  ExpectArgs(form, R"([a \in D{t \in X1 | t \eq t}, b \in X2, c \in R{x \assign X1 | x}] (a, b, c))", "[a:X1, b:X2, c:X1]");
  ExpectArgs(form, R"([a \in D{t \in X1 | \A s \in X1 s \eq t}, c \in R{x \assign X2 | x}] (a, c))", "[a:X1, c:X2]");
  // three bound variables before the first argument: the stale position is out of range
  ExpectArgs(form, R"([a \in D{t \in X1 | \A s \in X1 \A r \in X1 (r \eq t \and r \eq s)}, c \in R{x \assign X2 | x}] (a, c))", "[a:X1, c:X2]");

  // consequence at schema level: the stored signature of the function is wrong, so a
  // correct call is rejected and a call with too few arguments is accepted
  const auto f1 = form.Emplace(CstType::function, R"([a \in D{b \in X1 | b \eq b}, b \in X2] (a, b))"_rs); // F1
  if (form.GetParse(f1).status != semantic::ParsingStatus::VERIFIED) {
    std::cout << "setup failed\n";
    return 2;
  }
  {
    auto auditor = form.Core().RSLang().MakeAuditor();
    const bool twoArgs = auditor->CheckExpression(R"(\A x \in X1 \A y \in X2 F1[x, y] \eq (x, y))", rslang::Syntax::ASCII);
    const bool oneArg = auditor->CheckExpression(R"(\A x \in X1 F1[x] \eq F1[x])", rslang::Syntax::ASCII);
    std::cout << (twoArgs ? "  ok   " : "  BAD  ") << "F1[x, y] accepted = " << twoArgs << " (expected 1)\n";
    std::cout << (!oneArg ? "  ok   " : "  BAD  ") << "F1[x]    accepted = " << oneArg << " (expected 0)\n";
    failures += (twoArgs ? 0 : 1) + (oneArg ? 1 : 0);
  }

  std::cout << (failures == 0 ? "PASS" : "FAIL") << "\n";
  return failures == 0 ? 0 : 1;
}
