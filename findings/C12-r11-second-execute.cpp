// C12-4: BinarySynthes::Execute gives its precreated result away; a second Execute on the same, still
// "correctly defined" operation dereferences the empty pointer (process dies) instead of yielding a schema
#include "ccl/semantic/RSForm.h"
#include "ccl/ops/RSOperations.h"
#include "ccl/ops/EquationOptions.h"
#include <iostream>
#include <sys/wait.h>
#include <unistd.h>

using ccl::semantic::RSForm;
using ccl::semantic::CstType;
using ccl::ops::EquationOptions;
using ccl::ops::BinarySynthes;

// 0 = both runs gave equal valid results, other = problem
static int Scenario(bool withEquation) {
  RSForm ks1{};
  const auto x1 = ks1.Emplace(CstType::base);
  ks1.SetTermFor(x1, "people");
  const auto d1 = ks1.Emplace(CstType::term, "X1\\X1");
  RSForm ks2{};
  const auto y1 = ks2.Emplace(CstType::base);
  ks2.SetTermFor(y1, "persons");
  const auto e1 = ks2.Emplace(CstType::term, "X1\xE2\x88\xAAX1");
  (void)d1; (void)e1;
  auto table = withEquation ? EquationOptions{ x1, y1 } : EquationOptions{};
  BinarySynthes synthes{ ks1, ks2, table };
  if (!synthes.IsCorrectlyDefined()) {
    return 10;
  }
  const auto first = synthes.Execute();
  if (first == nullptr) {
    return 11;
  }
  const auto firstTranslations = synthes.Translations();
  if (!synthes.IsCorrectlyDefined()) {
    return 12; // would be an acceptable way to say "cannot run again"
  }
  const auto second = synthes.Execute(); // operation still reports that it is correctly defined
  if (second == nullptr) {
    return 13;
  }
  if (first->CoreHash() != second->CoreHash() || std::size(first->Core()) != std::size(second->Core())) {
    return 14;
  }
  for (const auto& translation : synthes.Translations()) {
    for (const auto& [key, value] : translation) {
      if (!second->Contains(value)) {
        return 15;
      }
    }
  }
  return firstTranslations == synthes.Translations() ? 0 : 16;
}

static bool RunIsolated(const char* name, bool withEquation) {
  std::cout << name << ": " << std::flush;
  const auto pid = fork();
  if (pid == 0) {
    _exit(Scenario(withEquation));
  }
  int status = 0;
  waitpid(pid, &status, 0);
  if (WIFSIGNALED(status)) {
    std::cout << "process killed by signal " << WTERMSIG(status) << " in the second Execute()\n";
    return false;
  }
  std::cout << "exit code " << WEXITSTATUS(status) << (WEXITSTATUS(status) == 0 ? " (second run equals the first)" : "") << "\n";
  return WEXITSTATUS(status) == 0;
}

int main() {
  auto ok = true;
  ok = RunIsolated("merge without equations, Execute twice", false) && ok;
  ok = RunIsolated("synthesis X1 -> X1, Execute twice", true) && ok;
  std::cout << (ok ? "PASS" : "FAIL") << "\n";
  return ok ? 0 : 1;
}
