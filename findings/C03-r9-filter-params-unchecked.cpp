// C03-3: the parameters of a filter Fi..[params](arg) are not type-checked at all when the
// argument has the type of the empty set: any ill-typed parameter expression (undeclared
// variable, unknown global, radical outside a declaration, set operation on a number ...)
// is accepted without a single error.
#include "ccl/semantic/RSForm.h"
#include "ccl/rslang/Literals.h"

#include <iostream>
#include <string>

using namespace ccl;
using semantic::CstType;
using rslang::operator""_rs;

static int failures = 0;

static void Expect(const semantic::RSForm& form, const std::string& ascii, const bool expectAccepted) {
  auto auditor = form.Core().RSLang().MakeAuditor();
  const bool accepted = auditor->CheckExpression(ascii, rslang::Syntax::ASCII);
  bool hasCritical = false;
  bool positionsInside = true;
  for (const auto& error : auditor->Errors().All()) {
    if (error.IsCritical()) {
      hasCritical = true;
      positionsInside = positionsInside && error.position >= 0 && error.position <= static_cast<StrPos>(ascii.size());
    }
  }
  const bool good = accepted == expectAccepted && (accepted || (hasCritical && positionsInside));
  std::cout << (good ? "  ok   " : "  BAD  ") << ascii << "  ->  " << (accepted ? "accepted" : "rejected")
            << " (critical errors: " << hasCritical << ")   expected " << (expectAccepted ? "accepted" : "rejected") << "\n";
  if (!good) {
    ++failures;
  }
}

int main() {
  semantic::RSForm form{};
  form.Emplace(CstType::base);                           // X1
  form.Emplace(CstType::structured, "B(X1*X1)"_rs);      // S1

  // the same parameters are rejected for an ordinary argument ...
  Expect(form, R"(Fi1[X1](S1))", true);
  Expect(form, R"(Fi1[t](S1))", false);
  Expect(form, R"(Fi1[X42](S1))", false);
  Expect(form, R"(Fi1[X1](S1 \setminus S1))", true);
  Expect(form, R"(Fi1[X1]({}))", true);

  // ... but everything goes once the argument is typed as the empty set
  Expect(form, R"(Fi1[t]({}))", false);                       // undeclared local variable
  Expect(form, R"(Fi1[X42]({}))", false);                     // unknown global
  Expect(form, R"(Fi1[R1]({}))", false);                      // radical outside of a function declaration
  Expect(form, R"(Fi1[X1 \union 1]({}))", false);             // union with a number
  Expect(form, R"(Fi1,2[X1, card(1)]({}))", false);           // cardinality of a number
  Expect(form, R"(Fi1[D{t \in X1 | t \in t}]({}))", false);   // ill-typed predicate inside
  Expect(form, R"(\A s \in {} Fi1[t](s) \eq s)", false);      // argument is an element of the empty set
  Expect(form, R"(Fi1[t](debool({{}})))", false);
  Expect(form, R"(Fi1[card(X1)]({}))", false);                // parameter is not a set (rejected for S1 as well)
  Expect(form, R"(Fi1[card(X1)](S1))", false);
  Expect(form, R"(Fi1,2[X1, {}]({}))", true);

  std::cout << (failures == 0 ? "PASS" : "FAIL") << "\n";
  return failures == 0 ? 0 : 1;
}
