// C11 finding 1: RSModel::Erase prunes dependant structures BEFORE the erase (while their
// typification is still intact), so the data of a structure over an erased base set survives.
// When a base set with the same alias is created again the structure becomes valid again and
// shows elements that do not exist in the current interpretation of that base set; terms
// calculated from it report values that are impossible for the current base data.
#include "ccl/semantic/RSModel.h"
#include "ccl/rslang/Literals.h"

#include <iostream>

using namespace ccl;
using namespace ccl::semantic;
using ccl::object::Factory;
using ccl::rslang::operator""_rs;

static std::string Show(const RSModel& m, const EntityUID uid) {
  const auto value = m.Values().SDataFor(uid);
  return m.GetRS(uid).alias
    + (m.GetParse(uid).status == ParsingStatus::VERIFIED ? " [VERIFIED]" : " [INCORRECT]")
    + " status=" + std::to_string(static_cast<int>(m.Calculations()(uid)))
    + " value=" + (value.has_value() ? value->ToString() : std::string{ "none" });
}

int main() {
  bool fail = false;
  RSModel m{};
  const auto x1 = m.Emplace(CstType::base);
  m.Values().AddBasicElement(x1, "a");
  m.Values().AddBasicElement(x1, "b");
  const auto s1 = m.Emplace(CstType::structured, "B(X1)"_rs);
  const auto d1 = m.Emplace(CstType::term, R"(S1 \setminus X1)"_rs); // always empty while S1 is a subset of X1
  if (!m.Values().SetStructureData(s1, Factory::Set({ Factory::Val(1), Factory::Val(2) }))) {
    std::cout << "setup failed\n";
    return 2;
  }
  m.Calculations().RecalculateAll();
  std::cout << "initial:        " << Show(m, x1) << " | " << Show(m, s1) << " | " << Show(m, d1) << "\n";

  m.Erase(x1);
  std::cout << "Erase(X1):      " << Show(m, s1) << " | " << Show(m, d1) << "\n";
  if (m.Values().SDataFor(s1).has_value() && m.GetParse(s1).Typification() == nullptr) {
    std::cout << "  -> S1 has lost its typification but still stores data\n";
  }

  const auto x1new = m.Emplace(CstType::base); // gets alias X1 again, interpretation is empty
  std::cout << "Emplace(base):  " << Show(m, x1new) << " | " << Show(m, s1) << " | " << Show(m, d1) << "\n";
  if (m.GetRS(x1new).alias != "X1") {
    std::cout << "unexpected alias\n";
    return 2;
  }

  // Clause: structure data is pruned to still-valid elements when the interpretation of its base set changes
  if (const auto data = m.Values().SDataFor(s1); data.has_value() && data->IsCollection()) {
    for (const auto& element : data->B()) {
      if (!m.Values().TextFor(x1new)->HasInterpretantFor(element.E().Value())) {
        std::cout << "  -> S1 contains element " << element.ToString() << " that is not in the current X1\n";
        fail = true;
      }
    }
  }

  m.Calculations().RecalculateAll();
  std::cout << "RecalculateAll: " << Show(m, x1new) << " | " << Show(m, s1) << " | " << Show(m, d1) << "\n";
  const auto status = m.Calculations()(d1);
  if (status == EvalStatus::HAS_DATA) {
    std::cout << "  -> D1 := S1\\X1 reports a non-empty value although X1 is empty\n";
    fail = true;
  }

  std::cout << (fail ? "FAIL" : "PASS") << "\n";
  return fail ? 1 : 0;
}
