// C01-3: references returned by iterators of lazy sets (power set, cartesian product) point into a 100-entry cache
// that is shared by ALL iterators of the same set object and is wiped (unordered_map::clear) by whichever iterator
// produces the 101st element. ViDeclarative keeps `const auto& child` across the evaluation of the predicate and
// then inserts it into the result; if the predicate walks the same lazy set object (same variable / same global),
// `child` dangles: the evaluation crashes or inserts other elements.
// Build: g++ -std=c++20 -O0 -w -DNDEBUG $(cat <lib>/inc.txt) demo.cpp <lib>/libccl.a -o demo
#include <sys/wait.h>
#include <unistd.h>
#include <functional>
#include "ccl/semantic/RSModel.h"
#include "ccl/rslang/RSGenerator.h"
// ---- minimal evaluation environment (public API only) ----
#include "ccl/rslang/Interpreter.h"
#include "ccl/rslang/Literals.h"
#include <iostream>
#include <optional>
#include <string>
#include <unordered_map>

using ccl::rslang::operator""_t;
using ccl::object::Factory;
using ccl::object::StructuredData;

struct Env final : ccl::rslang::TypeContext {
  struct Element {
    std::optional<ccl::rslang::ExpressionType> type{};
    std::optional<ccl::rslang::FunctionArguments> arguments{};
    std::optional<ccl::rslang::SyntaxTree> ast{};
    std::optional<StructuredData> objects{};
  };
  std::unordered_map<std::string, Element> data{};

  void Insert(const std::string& name, const ccl::rslang::ExpressionType& type) { data[name].type = type; }
  bool AddFunction(const std::string& name, const std::string& definition,
                   const ccl::rslang::ExpressionType& type, ccl::rslang::FunctionArguments args) {
    ccl::rslang::Parser parser{};
    if (!parser.Parse(definition, ccl::rslang::Syntax::ASCII)) {
      return false;
    }
    data[name].ast = parser.AST();
    data[name].type = type;
    data[name].arguments = std::move(args);
    return true;
  }
  const ccl::rslang::ExpressionType* TypeFor(const std::string& name) const final {
    const auto it = data.find(name);
    return it == data.end() || !it->second.type.has_value() ? nullptr : &it->second.type.value();
  }
  const ccl::rslang::FunctionArguments* FunctionArgsFor(const std::string& name) const final {
    const auto it = data.find(name);
    return it == data.end() || !it->second.arguments.has_value() ? nullptr : &it->second.arguments.value();
  }
  std::optional<ccl::rslang::TypeTraits> TraitsFor(const ccl::rslang::Typification& type) const final {
    if (type == ccl::rslang::Typification::Integer()) {
      return ccl::rslang::TraitsIntegral;
    }
    return std::nullopt;
  }
  ccl::rslang::DataContext GetDataContext() {
    return [this](const std::string& name) -> std::optional<StructuredData> {
      const auto it = data.find(name);
      return it == data.end() ? std::nullopt : it->second.objects;
    };
  }
  ccl::rslang::SyntaxTreeContext GetAST() const {
    return [this](const std::string& name) -> const ccl::rslang::SyntaxTree* {
      const auto it = data.find(name);
      return it == data.end() || !it->second.ast.has_value() ? nullptr : &it->second.ast.value();
    };
  }
};

//! Evaluate and render: value text, or "ERROR <codes>" when evaluation fails
static std::string Eval(ccl::rslang::Interpreter& interpreter, const std::string& expr,
                        ccl::rslang::Syntax syntax = ccl::rslang::Syntax::ASCII) {
  const auto result = interpreter.Evaluate(expr, syntax);
  if (!result.has_value()) {
    std::string out{ "ERROR" };
    for (const auto& error : interpreter.Errors().All()) {
      char buffer[16]; std::snprintf(buffer, sizeof(buffer), " %04x", error.eid);
      out += buffer;
    }
    return out;
  }
  if (std::holds_alternative<bool>(result.value())) {
    return std::get<bool>(result.value()) ? "true" : "false";
  }
  return std::get<StructuredData>(result.value()).ToString();
}

static int failures = 0;
static void Expect(const std::string& what, const std::string& observed, const std::string& expected) {
  const bool ok = observed == expected;
  std::cout << (ok ? "  ok   " : "  BAD  ") << what << "\n         expected: " << expected << "\n         observed: " << observed << std::endl;
  if (!ok) {
    ++failures;
  }
}
// ---- end of environment ----

//! Run in a child process: the unrepaired library reads freed memory and usually crashes
static std::string RunIsolated(const std::function<std::string()>& job) {
  int fd[2];
  if (pipe(fd) != 0) {
    return "pipe failed";
  }
  const auto pid = fork();
  if (pid == 0) {
    close(fd[0]);
    const auto text = job();
    (void)!write(fd[1], text.data(), text.size());
    _exit(0);
  }
  close(fd[1]);
  std::string out{};
  char buffer[256];
  for (ssize_t n = 0; (n = read(fd[0], buffer, sizeof(buffer))) > 0; ) {
    out.append(buffer, static_cast<size_t>(n));
  }
  close(fd[0]);
  int status = 0;
  waitpid(pid, &status, 0);
  if (WIFSIGNALED(status)) {
    return "CRASH (signal " + std::to_string(WTERMSIG(status)) + ")";
  }
  return out;
}

static std::string EvalIsolated(Env& env, const std::string& expr) {
  return RunIsolated([&]() {
    ccl::rslang::Interpreter interpreter{ env, env.GetAST(), env.GetDataContext() };
    return Eval(interpreter, expr);
  });
}

//! X1 = 7 elements, D1 := B(X1), D2 := D{x in D1 | forall y in D1 (y=y)}; returns card(D2) after Calculate
static std::string ModelScenario() {
  using ccl::semantic::CstType;
  ccl::semantic::RSModel model{};
  const auto x1 = model.Emplace(CstType::base);
  model.Values().SetBasicText(x1, ccl::semantic::TextInterpretation{ { "1", "2", "3", "4", "5", "6", "7" } });
  const auto d1 = model.Emplace(CstType::term, ccl::rslang::ConvertTo(R"(B(X1))", ccl::rslang::Syntax::MATH));
  const auto d2 = model.Emplace(CstType::term,
    ccl::rslang::ConvertTo(R"(D{x \in D1 | \A y \in D1 (y \eq y)})", ccl::rslang::Syntax::MATH));
  if (!model.Calculations().Calculate(d1) || !model.Calculations().Calculate(d2)) {
    return "Calculate failed";
  }
  const auto value = model.Values().SDataFor(d2);
  return value.has_value() ? std::to_string(value->B().Cardinality()) : std::string{ "no value" };
}

int main() {
  Env env{};
  env.Insert("C1", "B(Z)"_t);
  env.data["C1"].objects = Factory::SetV({ 1, 2, 3, 4, 5, 6, 7 });       // 2^7 = 128 subsets > 100 cache entries
  env.Insert("C2", "B(Z)"_t);
  env.data["C2"].objects = Factory::SetV({ 1, 2, 3, 4, 5, 6, 7, 8, 9, 10, 11 }); // 11*11 = 121 pairs > 100
  // the same interpretations, handed over as lazily represented values (what RSModel stores for D1 := B(C1) / C2*C2)
  env.Insert("D1", "BB(Z)"_t);
  env.data["D1"].objects = Factory::Boolean(env.data["C1"].objects.value());
  env.Insert("D2", "B(Z*Z)"_t);
  env.data["D2"].objects = Factory::Decartian({ env.data["C2"].objects.value(), env.data["C2"].objects.value() });
  // ... and enumerated
  env.Insert("D3", "BB(Z)"_t);
  env.data["D3"].objects = Factory::EmptySet();
  for (const auto& subset : env.data["D1"].objects->B()) {
    env.data["D3"].objects->ModifyB().AddElement(subset);
  }

  // the predicate is true for every x, so each set-builder returns its whole domain
  std::cout << "global whose interpretation is a lazy power set / product" << std::endl;
  Expect("card(D{x in D1 | forall y in D1 (y=y)})   [D1 = lazy B(C1)]",
         EvalIsolated(env, R"(card(D{x \in D1 | \A y \in D1 (y \eq y)}))"), "128");
  Expect("card(D{x in D3 | forall y in D3 (y=y)})   [D3 = the same set, enumerated]",
         EvalIsolated(env, R"(card(D{x \in D3 | \A y \in D3 (y \eq y)}))"), "128");
  Expect("D{x in D1 | forall y in D1 (y=y)} = D1",
         EvalIsolated(env, R"(D{x \in D1 | \A y \in D1 (y \eq y)} \eq D1)"), "true");
  Expect("card(D{x in D2 | forall y in D2 (y=y)})   [D2 = lazy C2*C2]",
         EvalIsolated(env, R"(card(D{x \in D2 | \A y \in D2 (y \eq y)}))"), "121");
  std::cout << "local variable bound to a lazy set (no lazily represented input data at all)" << std::endl;
  Expect("card(debool(I{r | s := B(C1); r := D{x in s | forall y in s (y=y)}}))",
         EvalIsolated(env, R"(card(debool(I{r | s \assign B(C1); r \assign D{x \in s | \A y \in s (y \eq y)}})))"), "128");
  Expect("control: two separately constructed power sets",
         EvalIsolated(env, R"(card(D{x \in B(C1) | \A y \in B(C1) (y \eq y)}))"), "128");

  std::cout << "RSModel: X1 = 7 elements, D1 := B(X1), D2 := D{x in D1 | forall y in D1 (y=y)}; Calculate(D1), Calculate(D2)" << std::endl;
  Expect("card of Values().SDataFor(D2)", RunIsolated(ModelScenario), "128");

  std::cout << (failures == 0 ? "PASS" : "FAIL") << std::endl;
  return failures == 0 ? 0 : 1;
}
