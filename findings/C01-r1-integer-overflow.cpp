// C01-4: integer values silently wrap modulo 2^32.
//  - literals: LexerBase::ToInt() is static_cast<int32_t>(atol(text)), so 4294967297 is read as 1;
//  - ViArithmetic adds / subtracts / multiplies int32_t without any range check (signed overflow, UB; wraps in practice).
// Neither reports an error, so evaluation returns a value different from the arithmetic one.
// Build: g++ -std=c++20 -O0 -w -DNDEBUG $(cat <lib>/inc.txt) demo.cpp <lib>/libccl.a -o demo
// ---- minimal evaluation environment (public API only) ----
#include "ccl/rslang/Interpreter.h"
#include "ccl/rslang/Literals.h"
#include <iostream>
#include <optional>
#include <string>
#include <unordered_map>

using ccl::rslang::operator""_t;
using ccl::object::Factory;
using ccl::object::StructuredData;

struct Env final : ccl::rslang::TypeContext {
  struct Element {
    std::optional<ccl::rslang::ExpressionType> type{};
    std::optional<ccl::rslang::FunctionArguments> arguments{};
    std::optional<ccl::rslang::SyntaxTree> ast{};
    std::optional<StructuredData> objects{};
  };
  std::unordered_map<std::string, Element> data{};

  void Insert(const std::string& name, const ccl::rslang::ExpressionType& type) { data[name].type = type; }
  bool AddFunction(const std::string& name, const std::string& definition,
                   const ccl::rslang::ExpressionType& type, ccl::rslang::FunctionArguments args) {
    ccl::rslang::Parser parser{};
    if (!parser.Parse(definition, ccl::rslang::Syntax::ASCII)) {
      return false;
    }
    data[name].ast = parser.AST();
    data[name].type = type;
    data[name].arguments = std::move(args);
    return true;
  }
  const ccl::rslang::ExpressionType* TypeFor(const std::string& name) const final {
    const auto it = data.find(name);
    return it == data.end() || !it->second.type.has_value() ? nullptr : &it->second.type.value();
  }
  const ccl::rslang::FunctionArguments* FunctionArgsFor(const std::string& name) const final {
    const auto it = data.find(name);
    return it == data.end() || !it->second.arguments.has_value() ? nullptr : &it->second.arguments.value();
  }
  std::optional<ccl::rslang::TypeTraits> TraitsFor(const ccl::rslang::Typification& type) const final {
    if (type == ccl::rslang::Typification::Integer()) {
      return ccl::rslang::TraitsIntegral;
    }
    return std::nullopt;
  }
  ccl::rslang::DataContext GetDataContext() {
    return [this](const std::string& name) -> std::optional<StructuredData> {
      const auto it = data.find(name);
      return it == data.end() ? std::nullopt : it->second.objects;
    };
  }
  ccl::rslang::SyntaxTreeContext GetAST() const {
    return [this](const std::string& name) -> const ccl::rslang::SyntaxTree* {
      const auto it = data.find(name);
      return it == data.end() || !it->second.ast.has_value() ? nullptr : &it->second.ast.value();
    };
  }
};

//! Evaluate and render: value text, or "ERROR <codes>" when evaluation fails
static std::string Eval(ccl::rslang::Interpreter& interpreter, const std::string& expr,
                        ccl::rslang::Syntax syntax = ccl::rslang::Syntax::ASCII) {
  const auto result = interpreter.Evaluate(expr, syntax);
  if (!result.has_value()) {
    std::string out{ "ERROR" };
    for (const auto& error : interpreter.Errors().All()) {
      char buffer[16]; std::snprintf(buffer, sizeof(buffer), " %04x", error.eid);
      out += buffer;
    }
    return out;
  }
  if (std::holds_alternative<bool>(result.value())) {
    return std::get<bool>(result.value()) ? "true" : "false";
  }
  return std::get<StructuredData>(result.value()).ToString();
}

static int failures = 0;
static void Expect(const std::string& what, const std::string& observed, const std::string& expected) {
  const bool ok = observed == expected;
  std::cout << (ok ? "  ok   " : "  BAD  ") << what << "\n         expected: " << expected << "\n         observed: " << observed << std::endl;
  if (!ok) {
    ++failures;
  }
}
// ---- end of environment ----

//! acceptable outcomes: the arithmetic value, or a reported error (value must never be a different one)
static void ExpectValueOrError(ccl::rslang::Interpreter& interpreter, const std::string& expr, const std::string& value,
                               ccl::rslang::Syntax syntax = ccl::rslang::Syntax::ASCII) {
  const auto observed = Eval(interpreter, expr, syntax);
  const bool ok = observed == value || observed.rfind("ERROR", 0) == 0;
  std::cout << (ok ? "  ok   " : "  BAD  ") << expr << "\n         expected: " << value << " (or a reported error)\n         observed: " << observed << std::endl;
  if (!ok) {
    ++failures;
  }
}

int main() {
  Env env{};
  ccl::rslang::Interpreter interpreter{ env, env.GetAST(), env.GetDataContext() };

  std::cout << "literals" << std::endl;
  ExpectValueOrError(interpreter, R"(4294967297 \eq 1)", "false");
  ExpectValueOrError(interpreter, R"(4294967297)", "4294967297");
  ExpectValueOrError(interpreter, R"(2147483648 \gr 0)", "true");
  ExpectValueOrError(interpreter, "4294967297=1", "false", ccl::rslang::Syntax::MATH);
  std::cout << "arithmetic" << std::endl;
  ExpectValueOrError(interpreter, R"(2147483647 \plus 1 \gr 2147483647)", "true");
  ExpectValueOrError(interpreter, R"(65536 \multiply 65536 \eq 0)", "false");
  ExpectValueOrError(interpreter, R"(card({65536 \multiply 65536, 0}))", "2");
  ExpectValueOrError(interpreter, R"((0 \minus 2147483647) \minus 2 \ls 0)", "true");
  std::cout << "in range (must keep working)" << std::endl;
  Expect(R"(2147483647 \minus 1)", Eval(interpreter, R"(2147483647 \minus 1)"), "2147483646");
  Expect(R"((0 \minus 2147483647) \minus 1 \ls 0)", Eval(interpreter, R"((0 \minus 2147483647) \minus 1 \ls 0)"), "true");
  Expect(R"(46340 \multiply 46340)", Eval(interpreter, R"(46340 \multiply 46340)"), "2147395600");

  std::cout << (failures == 0 ? "PASS" : "FAIL") << std::endl;
  return failures == 0 ? 0 : 1;
}
