#include "ccl/semantic/RSModel.h"
#include "ccl/tools/JSON.h"
#include <iostream>
using namespace ccl; using namespace ccl::semantic;
using JSON = nlohmann::ordered_json;
int main() {
  RSModel m;
  auto x1 = m.Emplace(CstType::base);
  TextInterpretation t; t.SetInterpretantFor(1, "a"); t.SetInterpretantFor(3, "c");
  m.Values().SetBasicText(x1, t);
  auto d1 = m.Emplace(CstType::term, "X1");
  m.Calculations().RecalculateAll();
  JSON j = m;
  RSModel m2; j.get_to(m2);
  auto show = [&](const RSModel& mm, const char* tag) {
    auto u = mm.Core().FindAlias("X1").value();
    std::cout << tag << " keys:"; for (const auto& [k, v] : *mm.Values().TextFor(u)) std::cout << " " << k << "=" << v;
    std::cout << " data=" << mm.Values().SDataFor(u)->ToString() << " D1=" << mm.Values().SDataFor(mm.Core().FindAlias("D1").value()).value().ToString() << "\n";
  };
  show(m, "original"); show(m2, "reloaded");
}
