// C12-2: a table that replaces a base set by a term that is not a set makes the typification
// comparison of another pair dereference a null pointer (process dies) instead of refusing the table
#include "ccl/semantic/RSForm.h"
#include "ccl/semantic/rsOperationFacet.h"
#include "ccl/ops/RSOperations.h"
#include "ccl/ops/EquationOptions.h"
#include <iostream>
#include <sys/wait.h>
#include <unistd.h>

using ccl::semantic::RSForm;
using ccl::semantic::CstType;
using ccl::semantic::ParsingStatus;
using ccl::ops::EquationOptions;
using ccl::ops::BinarySynthes;

// returns 0 = refused and schema untouched, 1 = accepted, 2 = refused but modified, 3 = exception
static int InOneSchema(const char* replacementDef) {
  RSForm schema{};
  const auto x1 = schema.Emplace(CstType::base);
  const auto x2 = schema.Emplace(CstType::base);
  const auto d1 = schema.Emplace(CstType::term, "debool(X1)");      // typification X1 (an element)
  const auto d2 = schema.Emplace(CstType::term, "debool(X2)");      // typification X2
  const auto d3 = schema.Emplace(CstType::term, replacementDef);    // not a set
  for (const auto uid : schema.Core()) {
    if (schema.GetParse(uid).status != ParsingStatus::VERIFIED) {
      return 4; // operands must be correct
    }
  }
  const auto hashBefore = schema.FullHash();
  EquationOptions table{};
  table.Insert(x1, d3); // base set replaced by a term that is not a set
  table.Insert(d1, d2);
  try {
    const auto can = schema.Ops().IsEquatable(table);
    const auto done = schema.Ops().Equate(table).has_value();
    if (can || done) {
      return 1;
    }
  } catch (...) {
    return 3;
  }
  return hashBefore == schema.FullHash() && schema.Contains(x1) && schema.Contains(d1) ? 0 : 2;
}

static int InSynthesis() {
  RSForm ks1{};
  const auto x1 = ks1.Emplace(CstType::base);
  const auto d1 = ks1.Emplace(CstType::term, "debool(X1)");
  RSForm ks2{};
  const auto y1 = ks2.Emplace(CstType::base);
  const auto e1 = ks2.Emplace(CstType::term, "debool(X1)");
  const auto e2 = ks2.Emplace(CstType::term, "debool(X1)");
  (void)y1;
  EquationOptions table{};
  table.Insert(x1, e2);
  table.Insert(d1, e1);
  try {
    BinarySynthes synthes{ ks1, ks2, table };
    return synthes.IsCorrectlyDefined() ? 1 : 0;
  } catch (...) {
    return 3;
  }
}

static bool RunIsolated(const char* name, int (*scenario)(const char*), const char* arg) {
  std::cout << name << ": " << std::flush;
  const auto pid = fork();
  if (pid == 0) {
    _exit(scenario(arg));
  }
  int status = 0;
  waitpid(pid, &status, 0);
  if (WIFSIGNALED(status)) {
    std::cout << "process killed by signal " << WTERMSIG(status) << " inside IsEquatable/Equate/BinarySynthes\n";
    return false;
  }
  const auto code = WEXITSTATUS(status);
  std::cout << (code == 0 ? "refused, nothing modified" : code == 1 ? "ACCEPTED" : code == 2 ? "refused but MODIFIED"
                : code == 3 ? "EXCEPTION" : "bad test setup") << "\n";
  return code == 0;
}

int main() {
  auto ok = true;
  ok = RunIsolated("one schema, X1 -> D3 := debool(X2) [element], D1 -> D2", InOneSchema, "debool(X2)") && ok;
  ok = RunIsolated("one schema, X1 -> D3 := debool(X2*X2) [tuple], D1 -> D2", InOneSchema, "debool(X2\xC3\x97X2)") && ok;
  ok = RunIsolated("synthesis, X1 -> D2 := debool(X1) [element], D1 -> D1",
                   [](const char*) { return InSynthesis(); }, "") && ok;
  std::cout << (ok ? "PASS" : "FAIL") << "\n";
  return ok ? 0 : 1;
}
