// C13-2: the alias renumbering that ends OpExtractBasis / OpMaxPart gives a new meaning to a text reference
// (term, text definition) and to a convention mention whose constituent is not part of the result.
#include "ccl/ops/RSOperations.h"
#include "ccl/rslang/RSExpr.h"
#include "ccl/rslang/Literals.h"
#include <iostream>

using namespace ccl;
using semantic::CstType;
using semantic::RSForm;
using rslang::operator""_rs;

static std::string Dump(const RSForm& s) {
  std::string out;
  for (const auto uid : s.List()) {
    const auto& c = s.GetRS(uid);
    const auto& t = s.GetText(uid);
    out += "   " + c.alias + " := '" + c.definition + "'"
      + " term='" + t.term.Text().Raw() + "' -> '" + t.term.Text().Str() + "'"
      + " text='" + t.definition.Raw() + "' -> '" + t.definition.Str() + "'"
      + " convention='" + c.convention + "'\n";
  }
  return out;
}

// a mention of the result that resolves must resolve to a constituent that the same text mentioned in the source
static bool CheckNames(const RSForm& source, const RSForm& result, const EntityUID uid, const char* what,
                       const std::unordered_set<std::string>& sourceNames,
                       const std::unordered_set<std::string>& resultNames) {
  SetOfEntities meant{};
  for (const auto& name : sourceNames) {
    if (const auto target = source.Core().FindAlias(name); target.has_value()) {
      meant.emplace(target.value());
    }
  }
  bool ok = true;
  for (const auto& name : resultNames) {
    const auto target = result.Core().FindAlias(name);
    if (target.has_value() && !meant.contains(target.value())) {
      std::cout << "   " << what << " of " << result.GetRS(uid).alias << " mentions " << name << " = '"
        << result.GetText(target.value()).term.Text().Str() << "' (" << source.GetRS(target.value()).alias
        << " of the source), which the source text did not mention\n";
      ok = false;
    }
  }
  return ok;
}

static bool Check(const RSForm& source, const RSForm& result) {
  bool ok = true;
  for (const auto uid : result.List()) {
    ok = CheckNames(source, result, uid, "term",
                    source.GetText(uid).term.Text().Referals(), result.GetText(uid).term.Text().Referals()) && ok;
    ok = CheckNames(source, result, uid, "text definition",
                    source.GetText(uid).definition.Referals(), result.GetText(uid).definition.Referals()) && ok;
    ok = CheckNames(source, result, uid, "convention",
                    rslang::ExtractUGlobals(source.GetRS(uid).convention), rslang::ExtractUGlobals(result.GetRS(uid).convention)) && ok;
  }
  return ok;
}

int main() {
  RSForm schema{};
  const auto x1 = schema.Emplace(CstType::base);
  const auto x2 = schema.Emplace(CstType::base);
  const auto x3 = schema.Emplace(CstType::base);
  const auto d1 = schema.Emplace(CstType::term, "X1*X3"_rs);
  schema.SetTermFor(x1, "animal");
  schema.SetTermFor(x2, "human");
  schema.SetTermFor(x3, "car");
  schema.SetTermFor(d1, "pair of @{X1|nomn,sing} and @{X3|nomn,sing}");
  schema.SetDefinitionFor(d1, "transport owned by @{X2|nomn,sing}");
  schema.SetConventionFor(d1, "X2 is the owner");
  std::cout << "source:\n" << Dump(schema);

  bool pass = true;
  {
    const auto result = ops::OpExtractBasis(schema, { d1 }).Execute(); // X1, X3, D1 - X2 is not a formal dependency
    std::cout << "OpExtractBasis({D1}):\n" << Dump(*result);
    pass = Check(schema, *result) && pass;
    // references to what was copied have to follow the renumbering
    if (result->GetText(d1).term.Text().Str() != "pair of animal and car") {
      std::cout << "   references to copied constituents were not kept\n";
      pass = false;
    }
  }
  {
    const auto result = ops::OpMaxPart(schema, { x1, x3 }).Execute(); // X1, X3, D1
    std::cout << "OpMaxPart({X1, X3}):\n" << Dump(*result);
    pass = Check(schema, *result) && pass;
  }
  std::cout << (pass ? "PASS" : "FAIL") << std::endl;
  return pass ? 0 : 1;
}
