// C05-3: the nesting bound of the parser (MAX_TREE_DEPTH = 1000) also counts bracket nodes, which never reach the
// syntax tree, while the generator brackets every infix operand of a Cartesian product. A bracket-free expression
// of nesting ~700 parses, but the text the generator prints for it (same tree, more brackets) is refused.
#include "ccl/rslang/Parser.h"
#include "ccl/rslang/RSGenerator.h"
#include <iostream>

using namespace ccl::rslang;

int main() {
  // X1∪X1×X1∪X1×X1 ... : all set operators have one precedence and associate to the left,
  // so this is ((((X1∪X1)×X1)∪X1)×X1)... with no bracket in the source
  static constexpr auto operators = 700;
  std::string input = "X1";
  for (auto i = 0; i < operators; ++i) {
    input += (i % 2 == 0) ? "\xE2\x88\xAA" : "\xC3\x97";
    input += "X1";
  }
  Parser parser{};
  if (!parser.Parse(input, Syntax::MATH)) {
    std::cout << "input does not parse (unexpected)\nFAIL\n";
    return 1;
  }
  const auto tree = parser.ExtractAST();
  std::cout << "input with " << operators << " operators and no brackets parses\n";

  bool failed = false;
  for (const auto syntax : { Syntax::MATH, Syntax::ASCII }) {
    const auto text = Generator::FromTree(*tree, syntax);
    const auto* name = syntax == Syntax::MATH ? "MATH " : "ASCII";
    if (!parser.Parse(text, syntax)) {
      std::cout << name << " text of the tree (" << size(text) << " bytes) does not parse\n";
      failed = true;
    } else if (!(parser.AST() == *tree)) {
      std::cout << name << " text of the tree parses to a different tree\n";
      failed = true;
    } else {
      std::cout << name << " text of the tree parses to an equal tree\n";
    }
  }
  // the bound itself has to stay: nesting of the tree above the limit is refused (no stack overflow)
  std::string deep = "X1";
  for (auto i = 0; i < 5000; ++i) {
    deep += "\xE2\x88\xAAX1";
  }
  if (parser.Parse(deep, Syntax::MATH)) {
    std::cout << "a tree of nesting 5000 is accepted\n";
    failed = true;
  }
  // redundant brackets do not nest the tree: accepted or refused, they must not crash the parser
  static constexpr auto redundant = 3000;
  const auto brackets = std::string(redundant, '(') + "X1\xE2\x88\xAAX1" + std::string(redundant, ')');
  std::cout << redundant << " redundant brackets around X1\xE2\x88\xAAX1: "
            << (parser.Parse(brackets, Syntax::MATH) ? "accepted" : "refused") << "\n";
  std::cout << (failed ? "FAIL" : "PASS") << "\n";
  return failed ? 1 : 0;
}
