// C08-2: translating a text reference rewrites more than the name: the whole reference is re-serialised,
// so the grammatical tags are reordered / legacy fields are dropped, and a rename there-and-back
// does not restore the text.
#include "ccl/semantic/RSForm.h"
#include "ccl/lang/ManagedText.h"
#include <iostream>

using ccl::semantic::RSForm;
using ccl::semantic::CstType;

int main() {
  bool ok = true;
  {
    // cclLang level
    ccl::lang::ManagedText text{ "\xD0\x96 @{X1|nomn,sing} \xE2\x88\x80 @{X1|nomn, plur} @{X1|nomn|sing|2}" };
    text.TranslateRaw(ccl::CreateTranslator({ { "X1", "X2" } }));
    const std::string expected = "\xD0\x96 @{X2|nomn,sing} \xE2\x88\x80 @{X2|nomn, plur} @{X2|nomn|sing|2}";
    std::cout << "ManagedText : " << text.Raw() << "\nexpected    : " << expected << "\n";
    ok = ok && text.Raw() == expected;
  }
  {
    // schema level: rename X1 -> X5 and back again
    RSForm schema{};
    const auto x1 = schema.Emplace(CstType::base);
    const auto d1 = schema.Emplace(CstType::term, "X1\\X1");
    schema.SetTermFor(x1, "man");
    const std::string term = "every @{X1|nomn,plur} and @{X1|gent,sing}";
    schema.SetTermFor(d1, term);
    const auto resolved = schema.GetText(d1).term.Nominal();
    schema.SetAliasFor(x1, "X5");
    const auto renamed = schema.GetText(d1).term.Text().Raw();
    schema.SetAliasFor(x1, "X1");
    const auto back = schema.GetText(d1).term.Text().Raw();
    std::cout << "original    : " << term << "\nrenamed     : " << renamed << "\nrenamed back: " << back << "\n";
    ok = ok && renamed == "every @{X5|nomn,plur} and @{X5|gent,sing}" && back == term
            && schema.GetText(d1).term.Nominal() == resolved;
  }
  std::cout << (ok ? "PASS" : "FAIL") << "\n";
  return ok ? 0 : 1;
}
