// ---- self-contained mini environment (TypeContext + DataContext + function ASTs) ----
#include "ccl/rslang/Interpreter.h"
#include "ccl/rslang/TypeAuditor.h"
#include "ccl/rslang/Parser.h"
#include "ccl/rslang/StructuredData.h"

#include <iostream>
#include <sstream>
#include <unordered_map>
#include <optional>
#include <unistd.h>
#include <sys/wait.h>

using namespace ccl::rslang;
using ccl::object::StructuredData;
using ccl::object::Factory;

class Env final : public TypeContext {
public:
  struct Element {
    std::optional<ExpressionType> type{};
    std::optional<TypeTraits> traits{};
    std::optional<FunctionArguments> arguments{};
    ccl::meta::UniqueCPPtr<SyntaxTree> ast{ nullptr };
    std::optional<StructuredData> objects{};
  };
  std::unordered_map<std::string, Element> data{};

  void Base(const std::string& name, StructuredData value, TypeTraits traits = TraitsNominal) {
    data[name].type = Typification(name).Bool();
    data[name].traits = traits;
    data[name].objects = std::move(value);
  }
  // Term function / predicate: type and argument list are taken from the library's own checker
  bool Func(const std::string& name, const std::string& definition) {
    Parser parser{};
    if (!parser.Parse(definition, Syntax::MATH)) { return false; }
    TypeAuditor auditor{ *this };
    if (!auditor.CheckType(parser.AST())) { return false; }
    data[name].type = auditor.GetType();
    data[name].arguments = auditor.GetDeclarationArgs();
    data[name].ast = parser.ExtractAST();
    return true;
  }
  const ExpressionType* TypeFor(const std::string& name) const final {
    if (!data.contains(name) || !data.at(name).type.has_value()) return nullptr;
    return &data.at(name).type.value();
  }
  const FunctionArguments* FunctionArgsFor(const std::string& name) const final {
    if (!data.contains(name) || !data.at(name).arguments.has_value()) return nullptr;
    return &data.at(name).arguments.value();
  }
  std::optional<TypeTraits> TraitsFor(const Typification& type) const final {
    if (!type.IsElement()) return std::nullopt;
    if (type == Typification::Integer()) return TraitsIntegral;
    if (!data.contains(type.E().baseID)) return std::nullopt;
    return data.at(type.E().baseID).traits;
  }
  DataContext Data() {
    return [this](const std::string& name) -> std::optional<StructuredData> {
      if (!data.contains(name)) return std::nullopt;
      return data.at(name).objects;
    };
  }
  SyntaxTreeContext AST() {
    return [this](const std::string& name) -> const SyntaxTree* {
      if (!data.contains(name)) return nullptr;
      return data.at(name).ast.get();
    };
  }
};

std::string TypeStr(const ExpressionType& t) {
  return std::holds_alternative<LogicT>(t) ? std::string{"LOGIC"} : std::get<Typification>(t).ToString();
}

// Type-check `expr`, then evaluate it through the public Interpreter.
// Returns a one-line report:  "REJECTED ..." | "VALUE <v> TYPE <t> COMPATIBLE <0/1>" | "NOVALUE errors..." | "EXCEPTION ..."
std::string CheckAndEvaluate(Env& env, const std::string& expr) {
  std::ostringstream out;
  std::optional<ExpressionType> type{};
  {
    Parser parser{};
    if (!parser.Parse(expr, Syntax::MATH)) return "REJECTED by parser";
    TypeAuditor auditor{ env, parser.log.SendReporter() };
    if (!auditor.CheckType(parser.AST())) {
      out << "REJECTED by type checker:";
      for (const auto& e : parser.log.All()) out << " 0x" << std::hex << e.eid;
      return out.str();
    }
    type = auditor.GetType();
  }
  try {
    Interpreter interpreter{ env, env.AST(), env.Data() };
    const auto value = interpreter.Evaluate(expr, Syntax::MATH);
    if (!value.has_value()) {
      out << "NOVALUE type " << TypeStr(*type) << " errors:";
      for (const auto& e : interpreter.Errors().All()) out << " 0x" << std::hex << e.eid;
      return out.str();
    }
    const bool isLogic = std::holds_alternative<LogicT>(*type);
    bool compatible = isLogic == std::holds_alternative<bool>(*value);
    std::string text{};
    if (std::holds_alternative<bool>(*value)) {
      text = std::get<bool>(*value) ? "TRUE" : "FALSE";
    } else {
      const auto& data = std::get<StructuredData>(*value);
      text = data.ToString();
      compatible = compatible && ccl::object::CheckCompatible(data, std::get<Typification>(*type));
    }
    out << "VALUE " << text << " TYPE " << TypeStr(*type) << " COMPATIBLE " << compatible;
    return out.str();
  } catch (const std::exception& ex) {
    return std::string{"EXCEPTION escaped from Evaluate: "} + ex.what();
  }
}

// Same, but in a forked child so that a crash of the evaluator is observed instead of killing the demo.
std::string Isolated(Env& env, const std::string& expr, int timeoutSec = 60) {
  int fd[2];
  if (pipe(fd) != 0) return "pipe failed";
  const pid_t pid = fork();
  if (pid == 0) {
    close(fd[0]);
    alarm(timeoutSec);
    const auto report = CheckAndEvaluate(env, expr);
    (void)!write(fd[1], report.data(), report.size());
    close(fd[1]);
    _exit(0);
  }
  close(fd[1]);
  std::string report{};
  char buf[4096];
  for (ssize_t n = 0; (n = read(fd[0], buf, sizeof(buf))) > 0; ) report.append(buf, static_cast<size_t>(n));
  close(fd[0]);
  int status = 0;
  waitpid(pid, &status, 0);
  if (WIFSIGNALED(status)) {
    return "CRASH: evaluator killed by signal " + std::to_string(WTERMSIG(status)) + (WTERMSIG(status) == SIGALRM ? " (timeout)" : "");
  }
  if (!WIFEXITED(status) || WEXITSTATUS(status) != 0) {
    return "CRASH: evaluator process aborted, exit code " + std::to_string(WEXITSTATUS(status));
  }
  return report;
}
// ---- end of mini environment ----

// C02 finding 2: TypeAuditor::ViRecursion types the recursion variable and the result with the type of the ITERATION
// expression only.
// (a) The variable first holds the INITIAL value, and a full recursion returns it when the condition fails at once;
//     the initial type only has to be "compatible", so R{c:={(1,2)} | 1=2 | ∅} is reported as ℬ(R0) ("empty set")
//     while its value is {(1,2)}. Every rule trusts that ℬ(R0)/R0 denotes nothing but ∅, e.g. red() is accepted.
// (b) The refinement loop stops after typeDeductionDepth (5) rounds and keeps the last guess even if no fixed point
//     was reached: R{(a,n):=(∅,0) | n<10 | ({a},n+1)} is reported as ℬℬℬℬℬℬℬ(R0)×Z, the value is nested 11 deep.
//     Un-nesting it 7 times gives an expression of the "any" type R0 that holds a real set; pr1() of it is accepted.
int main() {
  Env env;
  env.Base("X1", Factory::SetV({ 1, 2, 3 }));

  bool ok = true;
  const auto expectSound = [&](const std::string& expr) {
    const auto report = Isolated(env, expr);
    std::cout << expr << "\n    -> " << report << "\n";
    // sound outcomes: rejected by the checker, or a value that has the reported type, or a reported evaluation error
    const bool rejected = report.rfind("REJECTED", 0) == 0;
    const bool compatible = report.rfind("VALUE", 0) == 0 && report.find("COMPATIBLE 1") != std::string::npos;
    const bool reportedError = report.rfind("NOVALUE", 0) == 0 && report.find("0x8a00") == std::string::npos;
    if (!(rejected || compatible || reportedError)) {
      std::cout << "    UNSOUND: accepted, but evaluation faults or the value does not have the reported type\n";
      ok = false;
    }
  };
  const auto expectValue = [&](const std::string& expr, const std::string& value) {
    const auto report = Isolated(env, expr);
    std::cout << expr << "\n    -> " << report << "\n";
    if (report.rfind("VALUE " + value + " TYPE", 0) != 0 || report.find("COMPATIBLE 1") == std::string::npos) {
      std::cout << "    REGRESSION: a convergent recursion must still be accepted and evaluate to " << value << "\n";
      ok = false;
    }
  };

  // (a) value {(1, 2)}, reported type ℬ(R0)
  expectSound("R{c := {(1,2)} | 1=2 | ∅}");
  // accepted (type ℬ(R0)); red() iterates the elements of the pair (1,2) as if it were a set
  expectSound("red(R{c := {(1,2)} | 1=2 | ∅})");
  // the same inside the recursion: c is typed ℬ(R0) while it holds the initial value
  expectSound("R{c := {(1,2)} | red(c)=∅ | ∅}");

  // (b) the value is ({{{{{{{{{{∅}}}}}}}}}}, 10); reported type ℬℬℬℬℬℬℬ(R0)×Z
  expectSound("R{(a,n) := (∅, 0) | n<10 | ({a}, n+1)}");
  // accepted with type R0; evaluation takes pr1 of the set {{{∅}}}
  expectSound("pr1(debool(debool(debool(debool(debool(debool(debool(pr1(R{(a,n) := (∅, 0) | n<10 | ({a}, n+1)})))))))))");

  // convergent recursions (the type of the variable is refined from ℬ(R0) and stabilises) stay accepted
  expectValue("R{a := ∅ | a∪X1}", "{1, 2, 3}");
  expectValue("R{(a,n) := (∅, 0) | n<2 | (a∪{n}, n+1)}", "({0, 1}, 2)");
  expectValue("R{a := X1 | a\\a}", "{}");
  expectValue("R{a := X1 | 1=1 | ∅}", "{}");
  expectValue("R{a := ∅ | card(a)<2 | a∪{card(a)}}", "{0, 1}");

  std::cout << (ok ? "PASS" : "FAIL") << std::endl;
  return ok ? 0 : 1;
}
