// C14 finding 1: CGraph::IsReachableFrom(x, x) is false for an item lying on a cycle of length >= 2,
// although it is true for an item with a self-loop (cycle of length 1) and false for an item on no cycle.
#include "ccl/graph/CGraph.h"
#include <iostream>

using ccl::graph::CGraph;

static int failures = 0;
static void expect(bool got, bool want, const char* what) {
  std::cout << (got == want ? "  ok   " : "  BAD  ") << what << " = " << got << " (expected " << want << ")\n";
  if (got != want) ++failures;
}

int main() {
  {
    std::cout << "graph 1->2, 2->1, 2->3\n";
    CGraph g;
    g.AddConnection(1, 2);
    g.AddConnection(2, 1);
    g.AddConnection(2, 3);
    // The other queries all agree that 1 and 2 lie on a cycle, i.e. 1 is reachable from 1:
    expect(g.HasLoop(), true, "HasLoop()");
    expect(g.GetAllLoopsItems().size() == 1 && g.GetAllLoopsItems()[0] == CGraph::UnorderedItems{ 1, 2 }, true, "GetAllLoopsItems()=={{1,2}}");
    expect(g.IsReachableFrom(2, 1), true, "IsReachableFrom(2,1)");
    expect(g.IsReachableFrom(1, 2), true, "IsReachableFrom(1,2)");
    expect(g.IsReachableFrom(1, 1), true, "IsReachableFrom(1,1)  [path 1->2->1]");
    expect(g.IsReachableFrom(2, 2), true, "IsReachableFrom(2,2)  [path 2->1->2]");
    expect(g.IsReachableFrom(3, 3), false, "IsReachableFrom(3,3)  [3 on no cycle]");
  }
  {
    std::cout << "graph 5->5 (self-loop), 5->6: the convention used by the library and pinned by its own test\n";
    CGraph g;
    g.AddConnection(5, 5);
    g.AddConnection(5, 6);
    expect(g.IsReachableFrom(5, 5), true, "IsReachableFrom(5,5)  [self-loop]");
    expect(g.IsReachableFrom(6, 6), false, "IsReachableFrom(6,6)");
  }
  {
    std::cout << "history: self-loop replaced by a 3-cycle through SetItemInputs\n";
    CGraph g;
    g.AddConnection(7, 7);
    expect(g.IsReachableFrom(7, 7), true, "IsReachableFrom(7,7) with 7->7");
    g.SetItemInputs(7, { 9 });        // 9->7, self-loop removed
    g.AddConnection(7, 8);
    g.AddConnection(8, 9);            // 7->8->9->7
    expect(g.HasLoop(), true, "HasLoop()");
    expect(g.IsReachableFrom(7, 7), true, "IsReachableFrom(7,7) with 7->8->9->7");
    g.EraseItem(8);                   // cycle broken
    expect(g.IsReachableFrom(7, 7), false, "IsReachableFrom(7,7) after EraseItem(8)");
  }
  std::cout << (failures == 0 ? "PASS" : "FAIL") << "\n";
  return failures == 0 ? 0 : 1;
}
