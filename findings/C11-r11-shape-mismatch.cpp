// C11 finding 2: rsValuesFacet::PruneStructure / CheckBasicElements assume that the stored data of a
// structure still has the shape of its typification. The typification of a structure S1:∈ℬ(D1) follows
// the definition of D1, so RSModel::SetExpressionFor(D1, ...) can change it without touching S1's own
// definition. The "prune" step then (a) silently keeps data of the old shape as current, (b) throws
// std::out_of_range out of SetExpressionFor in the middle of ResetDependants, or (c) dereferences a null
// pointer (segfault), depending on the direction of the change.
// Every scenario runs in a child process so that the crashes can be reported.
#include "ccl/semantic/RSModel.h"
#include "ccl/rslang/Literals.h"

#include <iostream>
#include <functional>

#include <sys/wait.h>
#include <unistd.h>

using namespace ccl;
using namespace ccl::semantic;
using ccl::object::Factory;
using ccl::object::StructuredData;
using ccl::rslang::Typification;
using ccl::rslang::operator""_rs;

static bool Fits(const StructuredData& data, const Typification& type) {
  if (data.Structure() != type.Structure()) {
    return false;
  }
  switch (data.Structure()) {
  default:
  case rslang::StructureType::basic: return true;
  case rslang::StructureType::collection: {
    for (const auto& element : data.B()) {
      if (!Fits(element, type.B().Base())) {
        return false;
      }
    }
    return true;
  }
  case rslang::StructureType::tuple: {
    if (data.T().Arity() != type.T().Arity()) {
      return false;
    }
    for (auto i = Typification::PR_START; i < data.T().Arity() + Typification::PR_START; ++i) {
      if (!Fits(data.T().Component(i), type.T().Component(i))) {
        return false;
      }
    }
    return true;
  }
  }
}

static std::string Show(const RSModel& m, const EntityUID uid) {
  const auto value = m.Values().SDataFor(uid);
  const auto* type = m.GetParse(uid).Typification();
  return m.GetRS(uid).alias + ":" + (type != nullptr ? type->ToString() : std::string{ "-" })
    + " status=" + std::to_string(static_cast<int>(m.Calculations()(uid)))
    + " value=" + (value.has_value() ? value->ToString() : std::string{ "none" });
}

// returns 0 = ok, 1 = stale data visible, 2 = exception escaped
static int Scenario(const std::string& oldDef, const StructuredData& element, const std::string& newDef) {
  RSModel m{};
  const auto x1 = m.Emplace(CstType::base);
  m.Values().AddBasicElement(x1, "a");
  m.Values().AddBasicElement(x1, "b");
  const auto d1 = m.Emplace(CstType::term, oldDef);
  const auto s1 = m.Emplace(CstType::structured, "B(D1)"_rs);
  const auto d2 = m.Emplace(CstType::term, "S1"_rs);
  std::vector<EntityUID> others{};
  for (auto i = 0; i < 6; ++i) {
    others.push_back(m.Emplace(CstType::term, "D1"_rs));
  }
  if (m.GetParse(s1).status != ParsingStatus::VERIFIED || !m.Values().SetStructureData(s1, Factory::Set({ element }))) {
    std::cout << "  setup failed\n";
    return 3;
  }
  m.Calculations().RecalculateAll();
  std::cout << "  before: " << Show(m, d1) << " | " << Show(m, s1) << " | " << Show(m, d2) << std::endl;

  int result = 0;
  try {
    m.SetExpressionFor(d1, newDef);
  } catch (const std::exception& e) {
    std::cout << "  exception escaped SetExpressionFor: " << e.what() << "\n";
    result = 2;
  }
  std::cout << "  after:  " << Show(m, d1) << " | " << Show(m, s1) << " | " << Show(m, d2) << std::endl;
  for (const auto uid : others) {
    if (const auto status = m.Calculations()(uid); status == EvalStatus::HAS_DATA || status == EvalStatus::EMPTY) {
      std::cout << "  " << Show(m, uid) << " <- value of the OLD definition of D1 still reported as calculated\n";
      result = result == 0 ? 1 : result;
    }
  }
  const auto* type = m.GetParse(s1).Typification();
  if (const auto data = m.Values().SDataFor(s1); data.has_value() && (type == nullptr || !Fits(data.value(), *type))) {
    std::cout << "  S1 keeps data " << data->ToString() << " that is not a value of its current typification "
      << (type != nullptr ? type->ToString() : std::string{ "-" }) << "\n";
    result = result == 0 ? 1 : result;
  }
  if (result == 0) {
    m.Calculations().RecalculateAll();
    if (const auto data = m.Values().SDataFor(d2); data.has_value() && !Fits(data.value(), *m.GetParse(d2).Typification())) {
      std::cout << "  D2 := S1 reports a value that does not fit its type\n";
      result = 1;
    }
  }
  return result;
}

static bool RunChild(const char* title, const std::function<int()>& body) {
  std::cout << title << std::endl;
  const auto pid = fork();
  if (pid == 0) {
    const auto code = body();
    std::cout.flush();
    _exit(code);
  }
  int status = 0;
  waitpid(pid, &status, 0);
  if (WIFSIGNALED(status)) {
    std::cout << "  child killed by signal " << WTERMSIG(status) << " (crash inside SetExpressionFor)\n";
    return false;
  }
  const auto code = WEXITSTATUS(status);
  std::cout << "  -> " << (code == 0 ? "ok" : code == 1 ? "stale data" : code == 2 ? "exception" : "setup error") << "\n";
  return code == 0;
}

int main() {
  const auto pair = Factory::Tuple({ Factory::Val(1), Factory::Val(2) });
  const auto triple = Factory::Tuple({ Factory::Val(1), Factory::Val(2), Factory::Val(1) });
  bool ok = true;
  ok = RunChild("A: D1 := X1*X1 -> X1*X1*X1 (tuple arity grows)",
                [&] { return Scenario("X1*X1"_rs, pair, "X1*X1*X1"_rs); }) && ok;
  ok = RunChild("B: D1 := X1*X1*X1 -> X1*X1 (tuple arity shrinks)",
                [&] { return Scenario("X1*X1*X1"_rs, triple, "X1*X1"_rs); }) && ok;
  ok = RunChild("C: D1 := X1*X1 -> X1 (tuple becomes element)",
                [&] { return Scenario("X1*X1"_rs, pair, "X1"_rs); }) && ok;
  ok = RunChild("D: D1 := X1 -> B(X1) (element becomes set)",
                [&] { return Scenario("X1"_rs, Factory::Val(1), "B(X1)"_rs); }) && ok;
  std::cout << (ok ? "PASS" : "FAIL") << "\n";
  return ok ? 0 : 1;
}
