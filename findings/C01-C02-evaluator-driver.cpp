#include "ccl/semantic/RSModel.h"
#include "ccl/rslang/Interpreter.h"
#include <iostream>
using namespace ccl; using namespace ccl::semantic;
int main(int argc, char** argv) {
  RSModel m;
  auto x1 = m.Emplace(CstType::base);
  rslang::Interpreter it{ m.Core().RSLang(), m.Core().RSLang().ASTContext(), m.Calculations().Context() };
  for (int i = 1; i < argc; ++i) { const char* e = argv[i];

    try {
      auto v = it.Evaluate(e);
      std::cout << "`" << e << "` value=" << v.has_value() << (v.has_value() && std::holds_alternative<bool>(v.value()) ? (std::get<bool>(v.value()) ? " TRUE" : " FALSE") : "") << " errors=" << it.Errors().All().size();
      for (auto& er : it.Errors().All()) std::cout << " [" << std::hex << er.eid << std::dec << "]";
      std::cout << std::endl;
    } catch (const std::exception& ex) { std::cout << "`" << e << "` THROWS " << ex.what() << "\n"; }
  }
}
