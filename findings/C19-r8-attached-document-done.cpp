// C19-2: a document can be attached to an operation pictogram that was never executed.
// The operation then reports "done" although no synthesis was ever made, and executing it
// dereferences the missing translation table (segmentation fault).
//
// build: g++ -std=c++20 -O0 -w -DNDEBUG $(cat <lib>/inc.txt) demo.cpp <lib>/libccl.a -o demo
#include "ccl/semantic/RSForm.h"
#include "ccl/oss/OSSchema.h"
#include "ccl/env/cclEnvironment.h"
#include "ccl/ops/RSOperations.h"
#include "ccl/tools/JSON.h"

#include <iostream>
#include <list>
#include <memory>
#include <csignal>
#include <cstdlib>
#include <unistd.h>

using namespace ccl;
using semantic::CstType;
using semantic::RSForm;

// ---- minimal in-memory source manager (same behaviour as the upstream test double) ----
class MemSrc : public src::Source, public types::Observer {
public:
  RSForm schema{};
  std::u8string fullName{};
  bool saved{ true };
  bool open{ true };

  MemSrc() { schema.AddObserver(*this); }
  MemSrc(const MemSrc&) = delete;
  MemSrc& operator=(const MemSrc&) = delete;
  ~MemSrc() override { schema.RemoveObserver(*this); }

  void OnObserve(const types::Message&) override { saved = false; }
  // announce unsaved changes to the environment (what an editor does on save / on request)
  void Announce() {
    if (!saved) {
      Environment::Sources().OnSourceChange(*this);
      saved = true;
    }
  }
  change::Hash CoreHash() const override { return schema.CoreHash(); }
  change::Hash FullHash() const override { return schema.FullHash(); }
  bool WriteData(meta::UniqueCPPtr<src::DataStream> data) override {
    const auto* rs = dynamic_cast<const RSForm*>(data.get());
    if (rs == nullptr) { return false; }
    schema = *rs;
    return true;
  }
  const src::DataStream* ReadData() const override { return &schema; }
  src::DataStream* AccessData() override { return &schema; }
  src::SrcType Type() const noexcept override { return src::SrcType::rsDoc; }
};

class MemManager final : public SourceManager {
  std::list<MemSrc> sources{};
  int counter{ 0 };
public:
  MemSrc& Cast(src::Source& s) { return dynamic_cast<MemSrc&>(s); }
  MemSrc& NewDoc() {
    auto name = to_u8string(std::string("doc") + std::to_string(++counter) + ".trs");
    return Cast(*CreateNew(src::Descriptor{ src::SrcType::rsDoc, name }));
  }
  bool TestDomain(const src::Descriptor&, const std::u8string&) const override { return true; }
  src::Descriptor Convert2Local(const src::Descriptor& g, const std::u8string&) const override { return g; }
  src::Descriptor Convert2Global(const src::Descriptor& l, const std::u8string&) const override { return l; }
  src::Descriptor CreateLocalDesc(src::SrcType type, std::u8string name) const override {
    static int i = 0;
    if (std::empty(name)) { name = to_u8string(std::string("local") + std::to_string(++i)); }
    return src::Descriptor{ type, name + u8".trs" };
  }
  src::Source* Find(const src::Descriptor& desc) override {
    for (auto& s : sources) { if (s.fullName == desc.name && s.open) { return &s; } }
    return nullptr;
  }
  src::Descriptor GetDescriptor(const src::Source& s) const override {
    return src::Descriptor{ src::SrcType::rsDoc, dynamic_cast<const MemSrc&>(s).fullName };
  }
  src::Source* CreateNew(const src::Descriptor& desc) override {
    if (Find(desc) != nullptr) { return nullptr; }
    sources.emplace_back();
    sources.back().fullName = desc.name;
    return &sources.back();
  }
  src::Source* Open(const src::Descriptor& desc) override {
    for (auto& s : sources) {
      if (s.fullName == desc.name) { s.open = true; OnSourceOpen(s); return &s; }
    }
    return nullptr;
  }
  void Close(src::Source& s) override {
    Cast(s).Announce();
    OnSourceClose(s);
    Cast(s).open = false;
  }
  bool SaveState(src::Source& s) override {
    if (!Cast(s).open) { return false; }
    Cast(s).Announce();
    return true;
  }
  void Discard(const src::Descriptor& desc) override {
    if (auto* s = Open(desc); s != nullptr) { s->ReleaseClaim(); Close(*s); }
  }
};

static const char* Name(ops::Status s) {
  switch (s) {
  case ops::Status::undefined: return "undefined";
  case ops::Status::defined: return "defined";
  case ops::Status::done: return "done";
  case ops::Status::outdated: return "outdated";
  case ops::Status::broken: return "broken";
  }
  return "?";
}


static void OnCrash(int) {
  const char msg[] = "crashed inside the library (SIGSEGV)\nFAIL\n";
  (void)!write(1, msg, sizeof(msg) - 1);
  _exit(1);
}

int main() {
  std::signal(SIGSEGV, OnCrash);
  Environment::Instance().SetSourceManager(std::make_unique<MemManager>());
  auto& mgr = dynamic_cast<MemManager&>(Environment::Sources());
  bool failed = false;
  {
    oss::OSSchema oss{};
    auto& srcs = oss.Src();
    auto& operations = oss.Ops();

    const auto b1 = oss.InsertBase()->uid;
    const auto b2 = oss.InsertBase()->uid;
    auto& doc1 = mgr.NewDoc();
    auto& doc2 = mgr.NewDoc();
    auto& foreign = mgr.NewDoc();
    doc1.schema.Emplace(CstType::base);
    doc2.schema.Emplace(CstType::base);
    foreign.schema.Emplace(CstType::base);
    foreign.schema.Emplace(CstType::base);
    foreign.schema.Emplace(CstType::base);
    srcs.ConnectPict2Src(b1, doc1);
    srcs.ConnectPict2Src(b2, doc2);

    const auto op = oss.InsertOperation(b1, b2)->uid;
    operations.InitFor(op, ops::Type::rsMerge);
    std::cout << "defined, never executed:  status=" << Name(operations.StatusOf(op)) << "\n";

    const auto connected = srcs.ConnectPict2Src(op, foreign);
    std::cout << "ConnectPict2Src(op, foreign document) = " << connected << "\n";
    const auto status = operations.StatusOf(op);
    std::cout << "status after connecting:  " << Name(status)
              << ", translations " << (operations(op)->translations == nullptr ? "missing" : "present") << "\n";

    if (connected && status == ops::Status::done) {
      const auto* stored = dynamic_cast<const RSForm*>(srcs.DataFor(op));
      auto fresh = ops::BinarySynthes(doc1.schema, doc2.schema, ops::EquationOptions{}).Execute();
      std::cout << "reports 'done' with " << std::size(stored->Core()) << " constituents; synthesis of the parents has "
                << std::size(fresh->Core()) << "\n";
      failed = true;
    }

    std::cout << "IsTranslatable..." << std::flush;
    std::cout << operations.IsTranslatable(op) << "\n";
    std::cout << "Execute..." << std::flush;
    const auto executed = operations.Execute(op);
    std::cout << executed << " status=" << Name(operations.StatusOf(op)) << "\n";
    if (executed) {
      // a successful execution must produce the synthesis of the parents (plus the user's own additions)
      const auto* stored = dynamic_cast<const RSForm*>(srcs.DataFor(op));
      size_t inherited = 0;
      for (const auto uid : stored->Core()) {
        inherited += stored->Mods().IsTracking(uid) ? 1U : 0U;
      }
      if (inherited != 2U || operations.StatusOf(op) != ops::Status::done) {
        std::cout << "unexpected result after execution\n";
        failed = true;
      }
    }
  }
  Environment::Instance().SetSourceManager(std::make_unique<SourceManager>());
  std::cout << (failed ? "FAIL" : "PASS") << "\n";
  return failed ? 1 : 0;
}
