// C02-1: the count of children of a node / arity of a tuple is an int16 (Index) that wraps around.
// A Cartesian product (or tuple literal, enumeration ...) with 32768 operands is accepted by the type checker
// with a garbage type (tuple of arity 0) and crashes the evaluator; with 32767 operands comparing two such tuples
// throws std::out_of_range out of Interpreter::Evaluate (and so does CheckCompatible(value, reported type)).
//
// build: g++ -std=c++20 -O0 -w -DNDEBUG $(cat <out>/inc.txt) demo.cpp <out>/libccl.a -o demo
#include "ccl/rslang/Interpreter.h"
#include "ccl/rslang/Parser.h"
#include "ccl/rslang/TypeAuditor.h"
#include "ccl/rslang/StructuredData.h"

#include <sys/wait.h>
#include <unistd.h>
#include <iostream>
#include <unordered_map>

using namespace ccl::rslang;
using ccl::object::StructuredData;
using ccl::object::Factory;

struct Env final : TypeContext {
  std::unordered_map<std::string, ExpressionType> types{};
  std::unordered_map<std::string, StructuredData> data{};
  const ExpressionType* TypeFor(const std::string& n) const final {
    const auto it = types.find(n); return it == types.end() ? nullptr : &it->second;
  }
  const FunctionArguments* FunctionArgsFor(const std::string&) const final { return nullptr; }
  std::optional<TypeTraits> TraitsFor(const Typification& t) const final {
    if (!t.IsElement()) return std::nullopt;
    if (t == Typification::Integer()) return TraitsIntegral;
    return TraitsNominal;
  }
};

// 0 - fine (refused, reported evaluation error, or value of the reported type), other / signal - defect
static int Scenario(const int factors, const bool compare) {
  Env env;
  env.types.emplace("X1", Typification("X1").Bool());
  env.data.emplace("X1", Factory::SetV({ 1 }));

  std::string product{};
  for (int i = 0; i < factors; ++i) {
    product += i == 0 ? "X1" : "\xC3\x97X1"; // ×
  }
  auto expr = "debool(" + product + ")";
  if (compare) {
    expr = expr + "=" + expr;
  }

  Parser parser{};
  if (!parser.Parse(expr, Syntax::MATH)) {
    std::cout << "  refused by the parser" << std::endl;
    return 0;
  }
  TypeAuditor checker{ env };
  if (!checker.CheckType(parser.AST())) {
    std::cout << "  refused by the type checker" << std::endl;
    return 0;
  }
  const auto type = checker.GetType();
  const auto product1 = compare ? parser.AST().Root().Child(0).Child(0) : parser.AST().Root().Child(0);
  std::cout << "  accepted, the product node has " << product1.ChildrenCount() << " children";
  if (!compare) {
    std::cout << ", reported arity " << std::get<Typification>(type).T().Arity();
  }
  std::cout << std::endl;

  Interpreter interpreter{ env, [](const std::string&) { return nullptr; },
    [&env](const std::string& name) -> std::optional<StructuredData> {
      const auto it = env.data.find(name);
      return it == env.data.end() ? std::nullopt : std::optional<StructuredData>{ it->second };
    } };
  try {
    const auto value = interpreter.Evaluate(expr, Syntax::MATH);
    if (!value.has_value()) {
      for (const auto& err : interpreter.Errors().All()) {
        if (err.eid == static_cast<uint32_t>(ValueEID::unknownError)) {
          std::cout << "  unknown evaluation error" << std::endl;
          return 2;
        }
      }
      std::cout << "  evaluation error reported" << std::endl;
      return 0;
    }
    if (std::holds_alternative<bool>(value.value())) {
      if (!std::holds_alternative<LogicT>(type)) {
        std::cout << "  truth value for a typed expression" << std::endl;
        return 3;
      }
      std::cout << "  truth value " << std::get<bool>(value.value()) << std::endl;
      return 0;
    }
    if (!ccl::object::CheckCompatible(std::get<StructuredData>(value.value()), std::get<Typification>(type))) {
      std::cout << "  value does not have the structure of the reported type" << std::endl;
      return 3;
    }
  } catch (const std::exception& e) {
    std::cout << "  exception escaped: " << e.what() << std::endl;
    return 4;
  }
  std::cout << "  value has the reported structure" << std::endl;
  return 0;
}

static bool RunIsolated(const int factors, const bool compare) {
  std::cout << (compare ? "debool(P)=debool(P)" : "debool(P)") << ", P = X1 x ... x X1 with " << factors << " factors" << std::endl;
  const auto pid = fork();
  if (pid == 0) {
    _exit(Scenario(factors, compare));
  }
  int status = 0;
  waitpid(pid, &status, 0);
  if (WIFSIGNALED(status)) {
    std::cout << "  evaluation crashed with signal " << WTERMSIG(status) << std::endl;
    return false;
  }
  return WIFEXITED(status) && WEXITSTATUS(status) == 0;
}

int main() {
  auto ok = true;
  ok = RunIsolated(1000, false) && ok;   // sanity: an ordinary wide product is fine
  ok = RunIsolated(1000, true) && ok;
  ok = RunIsolated(32767, true) && ok;   // arity + PR_START does not fit Index
  ok = RunIsolated(32768, false) && ok;  // count of children does not fit Index
  std::cout << (ok ? "PASS" : "FAIL") << std::endl;
  return ok ? 0 : 1;
}
