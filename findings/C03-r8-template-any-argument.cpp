// C03-1: a call of a templated term-function whose argument is (or contains) the empty
// set leaves template parameters of the function un-instantiated: the reported
// typification contains the internal mangled radical (e.g. "R1F1"), which is neither a
// base set nor a template parameter of anything.
#include "ccl/semantic/RSForm.h"
#include "ccl/rslang/Literals.h"

#include <iostream>
#include <string>

using namespace ccl;
using semantic::CstType;
using rslang::operator""_rs;

static int failures = 0;

static void Expect(const semantic::RSForm& form, const std::string& ascii, const std::string& expected) {
  auto auditor = form.Core().RSLang().MakeAuditor();
  const bool ok = auditor->CheckExpression(ascii, rslang::Syntax::ASCII);
  std::string actual = "<rejected>";
  if (ok) {
    const auto& type = auditor->GetType();
    actual = std::holds_alternative<rslang::Typification>(type) ? std::get<rslang::Typification>(type).ToString() : "LOGIC";
  }
  const bool good = ok && actual == expected;
  std::cout << (good ? "  ok   " : "  BAD  ") << ascii << "  ->  " << actual << "   (expected " << expected << ")\n";
  if (!good) {
    ++failures;
  }
}

int main() {
  semantic::RSForm form{};
  form.Emplace(CstType::base);                                                  // X1
  form.Emplace(CstType::base);                                                  // X2
  const auto f1 = form.Emplace(CstType::function, "[a \\in B(R1*R2)] Pr1(a)"_rs);        // F1 : B(R1)
  const auto f2 = form.Emplace(CstType::function, "[a \\in B(R1*R2), b \\in R2] Pr1(a)"_rs); // F2 : B(R1)
  const auto f3 = form.Emplace(CstType::function, "[a \\in B(R1)] a"_rs);                // F3 : B(R1)
  for (const auto uid : { f1, f2, f3 }) {
    if (form.GetParse(uid).status != semantic::ParsingStatus::VERIFIED) {
      std::cout << "setup failed for " << form.GetRS(uid).alias << "\n";
      return 2;
    }
  }

  // sanity: ordinary instantiation works
  Expect(form, R"(F1[X1*X2])", "ℬ(X1)");
  Expect(form, R"(F3[{}])", "ℬ(R0)");
  // the empty set is a legal argument for B(R1*R2); R1 must be instantiated (to the any-type R0)
  Expect(form, R"(F1[{}])", "ℬ(R0)");
  // R2 is deduced from the second argument, R1 stays unknown -> R0
  Expect(form, R"(F2[{}, X2])", "ℬ(R0)");
  // element of the empty set passed where a set is expected
  Expect(form, R"(I{F3[x] | x \from {}})", "ℬℬ(R0)");
  // the leaked name even type-checks against unrelated things afterwards
  Expect(form, R"(F1[{}] \union X1)", "ℬ(X1)");

  std::cout << (failures == 0 ? "PASS" : "FAIL") << "\n";
  return failures == 0 ? 0 : 1;
}
