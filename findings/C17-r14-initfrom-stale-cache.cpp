// C17-3 (borderline): while TextEnvironment::skipResolving is set, ManagedText::InitFrom /
// LexicalTerm::SetText / Thesaurus::SetTermFor / SetDefinitionFor replace the raw text but keep the
// resolution of the PREVIOUS text, so Str() shows a text that has nothing to do with Raw().
// The sibling ManagedText::SetRaw drops the stale resolution.
#include "ccl/lang/ManagedText.h"
#include "ccl/lang/LexicalTerm.h"
#include "ccl/lang/TextEnvironment.h"
#include "ccl/lang/EntityTermContext.hpp"
#include "ccl/semantic/Thesaurus.h"

#include <iostream>
#include <map>

using namespace ccl;
using namespace ccl::lang;

struct Ctx : EntityTermContext {
  std::map<std::string, LexicalTerm> terms;
  const LexicalTerm* At(const std::string& e) const override {
    auto it = terms.find(e);
    return it == terms.end() ? nullptr : &it->second;
  }
};

static int failures = 0;
static void Expect(bool ok, const std::string& what) {
  std::cout << (ok ? "  ok   " : "  BAD  ") << what << "\n";
  if (!ok) ++failures;
}

int main() {
  Ctx ctx;
  ctx.terms.emplace("X1", LexicalTerm{ "man" });
  {
    ManagedText text{};
    text.InitFrom("old @{X1|nomn}", ctx);
    Expect(text.Str() == "old man", "resolved: " + text.Raw() + " -> " + text.Str());

    TextEnvironment::Instance().skipResolving = true;
    text.InitFrom("a new text without references", ctx);
    TextEnvironment::Instance().skipResolving = false;
    std::cout << "  Raw() = [" << text.Raw() << "]  Str() = [" << text.Str() << "]\n";
    Expect(text.Str() == text.Raw(), "a text without references reads as it is written");

    ManagedText sibling{ "old @{X1|nomn}", "old man" };
    sibling.SetRaw("a new text without references");
    Expect(sibling.Str() == sibling.Raw(), "SetRaw (the sibling) drops the stale resolution");
  }
  {
    semantic::Thesaurus th;
    th.Emplace(1, "X1", LexicalTerm{ "man" });
    th.Emplace(2, "X2", LexicalTerm{ "old @{X1|nomn}" }, ManagedText{ "is an @{X1|nomn}" });
    TextEnvironment::Instance().skipResolving = true;
    th.SetTermFor(2, "something else");
    th.SetDefinitionFor(2, "no mention at all");
    TextEnvironment::Instance().skipResolving = false;
    std::cout << "  term: Raw() = [" << th.At(2).term.Text().Raw() << "]  Nominal() = [" << th.At(2).term.Nominal() << "]\n";
    std::cout << "  definition: Raw() = [" << th.At(2).definition.Raw() << "]  Str() = [" << th.At(2).definition.Str() << "]\n";
    Expect(th.At(2).term.Nominal() == "something else", "Thesaurus::SetTermFor: the term reads as the new text");
    Expect(th.At(2).definition.Str() == "no mention at all", "Thesaurus::SetDefinitionFor: the definition reads as the new text");
  }
  std::cout << (failures == 0 ? "PASS" : "FAIL") << "\n";
  return failures == 0 ? 0 : 1;
}
