#include "ccl/api/RSFormJA.h"
#include <iostream>
using namespace ccl;
int main(int argc, char** argv) {
  for (std::string e : { std::string("X1"), std::string("\xff"), std::string("X1 \xce"), std::string("\xe2\x88"), std::string("X1\xff=X1") }) {
    try { auto r = api::ParseExpression(e); std::cout << "ok len=" << r.size() << std::endl; }
    catch (const std::exception& ex) { std::cout << "THROWS " << ex.what() << std::endl; }
  }
}
