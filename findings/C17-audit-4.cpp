// C17-4: RefsManager::Insert of an invalid (malformed) Reference throws std::bad_variant_access
//        after the invalid reference has already been stored in the list
#include "ccl/lang/RefsManager.h"
#include "ccl/lang/LexicalTerm.h"
#include <iostream>

using namespace ccl;
using namespace ccl::lang;

class Ctx : public EntityTermContext {
public:
  std::unordered_map<std::string, LexicalTerm> terms;
  bool Contains(const std::string& e) const override { return terms.contains(e); }
  const LexicalTerm* At(const std::string& e) const override {
    auto it = terms.find(e); return it == terms.end() ? nullptr : &it->second;
  }
};

static int failures = 0;
static void Check(bool ok, const std::string& what) {
  std::cout << (ok ? "  ok   " : "  BAD  ") << what << "\n";
  if (!ok) ++failures;
}

int main() {
  Ctx ctx;
  ctx.terms.emplace("X1", LexicalTerm{ "Test" });
  ctx.terms.emplace("X2", LexicalTerm{ "Other" });
  RefsManager mgr{ ctx };

  const std::string text = "ab @{X1|nomn} cd";
  const auto resolved = mgr.Resolve(text); // "ab Test cd", reference at [3,7)
  Check(resolved == "ab Test cd" && mgr.get().size() == 1, "control: resolved \"ab Test cd\" with one reference");

  const auto malformed = Reference::Parse("@{oops}"); // malformed marker -> invalid Reference, no fault
  Check(!malformed.IsValid(), "control: Parse(\"@{oops}\") yields an invalid reference without faulting");

  bool threw = false;
  const Reference* inserted = nullptr;
  try {
    inserted = mgr.Insert(malformed, 0);
  } catch (const std::exception& e) {
    threw = true;
    std::cout << "Insert(invalid, 0) threw: " << e.what() << "\n";
  }
  Check(!threw, "Insert of a malformed reference does not fault");
  Check(inserted == nullptr, "Insert of a malformed reference is refused (nullptr)");

  std::cout << "references held afterwards: " << mgr.get().size() << "\n";
  for (const auto& ref : mgr.get()) {
    std::cout << "    [" << ref.position.start << "," << ref.position.finish << ") valid=" << ref.IsValid() << "\n";
  }
  Check(mgr.get().size() == 1 && mgr.get()[0].IsValid() && mgr.get()[0].position == StrRange(3, 7),
    "the list still holds exactly the reference at [3,7)");
  Check(mgr.OutputRefs(resolved) == text, "OutputRefs still restores the text");

  // follow-up legal operation on the same manager: insert a valid reference at the text start
  const auto* valid = mgr.Insert(Reference::Parse("@{X2|nomn}"), 0);
  Check(valid != nullptr && valid->resolvedText == "Other", "a valid reference can still be inserted at position 0");

  std::cout << (failures == 0 ? "PASS" : "FAIL") << "\n";
  return failures == 0 ? 0 : 1;
}
