// C17-1: a terminated but malformed "@{ ... }" marker hides the well-formed references nested in it
#include "ccl/lang/RefsManager.h"
#include "ccl/lang/LexicalTerm.h"
#include "ccl/lang/ManagedText.h"
#include "ccl/lang/EntityTermContext.hpp"
#include <iostream>

using namespace ccl;
using namespace ccl::lang;

class Ctx : public EntityTermContext {
public:
  std::unordered_map<std::string, LexicalTerm> terms;
  bool Contains(const std::string& e) const override { return terms.contains(e); }
  const LexicalTerm* At(const std::string& e) const override {
    auto it = terms.find(e); return it == terms.end() ? nullptr : &it->second;
  }
};

int failures = 0;
void Check(bool cond, const std::string& what) {
  std::cout << (cond ? "  ok   " : "  BAD  ") << what << "\n";
  if (!cond) ++failures;
}

int main() {
  Ctx ctx;
  ctx.terms.emplace("X1", LexicalTerm{ "Test" });
  ctx.terms.emplace("X2", LexicalTerm{ "Other" });

  // Baseline (already works): the unterminated sibling. "@{note: " is plain text, X1 is found.
  {
    const std::string text = "see @{note: @{X1|nomn} and more";
    const auto refs = Reference::ExtractAll(text);
    Check(refs.size() == 1 && refs[0].IsEntity() && refs[0].GetEntity() == "X1", "unterminated outer marker: inner X1 found");
  }

  // Failing: the same text with the outer marker closed. The outer "@{note: ... }" is not a
  // well-formed reference (Parse refuses it), the inner "@{X1|nomn}" is.
  {
    const std::string text = "see @{note: @{X1|nomn} and more} tail @{X2|nomn}";
    std::cout << "text: " << text << "\n";
    Check(!Reference::Parse("@{note: @{X1|nomn} and more}").IsValid(), "outer marker is malformed");
    Check(Reference::Parse("@{X1|nomn}").IsValid(), "inner marker is well-formed");

    const auto refs = Reference::ExtractAll(text);
    std::cout << "  ExtractAll found " << refs.size() << " reference(s):";
    for (const auto& r : refs) std::cout << " " << r.ToString() << "[" << r.position.start << "," << r.position.finish << ")";
    std::cout << "\n";
    Check(refs.size() == 2, "ExtractAll finds both well-formed references X1 and X2");
    if (refs.size() == 2) {
      Check(refs[0].GetEntity() == "X1" && refs[0].position == StrRange(12, 22), "X1 at [12,22)");
      Check(refs[1].GetEntity() == "X2", "X2 second");
    }

    RefsManager mgr{ ctx };
    const auto resolved = mgr.Resolve(text);
    std::cout << "  resolved: " << resolved << "\n";
    Check(resolved == "see @{note: Test and more} tail Other", "Resolve replaces the nested well-formed reference");
    Check(mgr.OutputRefs(resolved) == text, "OutputRefs restores the original text");

    const ManagedText mt{ text };
    const auto mentioned = mt.Referals();
    Check(mentioned == std::unordered_set<std::string>{ "X1", "X2" }, "Referals == {X1, X2}");

    ManagedText tr{ text };
    tr.TranslateRaw([](const std::string& s) -> std::optional<std::string> {
      if (s == "X1") return std::string{ "X7" }; return std::nullopt; });
    Check(tr.Raw() == "see @{note: @{X7|nomn} and more} tail @{X2|nomn}", "TranslateRaw renames the nested mention of X1");
  }

  // Smallest forms
  {
    const auto refs = Reference::ExtractAll("@{@{X1|nomn}}");
    Check(refs.size() == 1 && refs[0].position == StrRange(2, 12), "\"@{@{X1|nomn}}\": inner reference found at [2,12)");
  }
  {
    // malformed collaboration (3 fields) wrapping an entity reference
    const auto refs = Reference::ExtractAll("@{-1|big @{X1|gent}}");
    Check(refs.size() == 1 && refs[0].IsEntity(), "\"@{-1|big @{X1|gent}}\": inner entity reference found");
  }
  {
    // a well-formed outer reference still wins over anything inside it (ranges do not overlap)
    const auto refs = Reference::ExtractAll("@{-1|{big}} @{X1|nomn}");
    Check(refs.size() == 2 && refs[0].IsCollaboration() && refs[0].GetNominal() == "{big}", "valid outer with braces is kept whole");
  }

  std::cout << (failures == 0 ? "PASS" : "FAIL") << "\n";
  return failures == 0 ? 0 : 1;
}
