// C16 finding 2 (arguable): a value that the library's own predicate CheckCompatible(value, type)
// accepts makes SDCompact::FromSData(value, type) dereference a null pointer.
// CheckCompatible inspects only the FIRST element of every set, so the inhomogeneous set
//   {{1}, {(1,2),(3,4)}}   is reported compatible with B(B(X1));
// Packer dispatches on the data's structure and calls type.T() on the basic typification X1.
#include "ccl/rslang/SDataCompact.h"
#include "ccl/rslang/StructuredData.h"
#include "ccl/rslang/Typification.h"
#include <csignal>
#include <unistd.h>
#include <iostream>

using namespace ccl;
using object::Factory; using object::SDCompact;
using rslang::Typification;

static void onFault(int) {
  static const char msg[] = "FAIL: FromSData faulted (SIGSEGV) on a value accepted by CheckCompatible\n";
  (void)!write(1, msg, sizeof(msg) - 1);
  _exit(1);
}

int main() {
  std::signal(SIGSEGV, onFault);
  const auto type = Typification("X1").Bool().Bool(); // B(B(X1))

  auto value = Factory::EmptySet();
  const bool a = value.ModifyB().AddElement(Factory::SetV({ 1 }));
  const bool b = value.ModifyB().AddElement(Factory::Set({ Factory::TupleV({ 1, 2 }), Factory::TupleV({ 3, 4 }) }));
  std::cout << "value=" << value.ToString() << " inserted=" << a << b << std::endl;

  if (!object::CheckCompatible(value, type)) {
    std::cout << "PASS: value is rejected as incompatible with " << type.ToString() << ", nothing to pack" << std::endl;
    return 0;
  }
  std::cout << "CheckCompatible(value, " << type.ToString() << ") == true, packing..." << std::endl;
  const auto packed = SDCompact::FromSData(value, type).data;
  const auto back = SDCompact::Unpack(packed, type);
  if (!back.has_value() || !(back.value() == value)) {
    std::cout << "FAIL: round trip of a CheckCompatible value does not return an equal value" << std::endl;
    return 1;
  }
  std::cout << "PASS" << std::endl;
  return 0;
}
