// C08-3 (borderline, see notes): MergeWith / BinarySynthes renames the constituents of the second operand with
// freshly generated aliases. A generated alias can be a name that a definition mentions although no constituent
// has it (a dangling mention), so the renaming gives the dangling mention a meaning:
// D1 := X1×X2 (INCORRECT, X2 does not exist) becomes X2×X2 (VERIFIED).
// Same defect as the one repaired for ResetAliases by "fix: renumbering never gives a dangling mention a meaning".
#include "ccl/semantic/RSForm.h"
#include "ccl/ops/RSOperations.h"
#include "ccl/rslang/RSExpr.h"
#include <iostream>

using ccl::semantic::RSForm;
using ccl::semantic::CstType;
using ccl::semantic::ParsingStatus;

static bool Check(const RSForm& schema, const char* title) {
  bool ok = true;
  std::cout << title << "\n";
  for (const auto uid : schema.List()) {
    const auto& cst = schema.GetRS(uid);
    const auto status = schema.GetParse(uid).status;
    std::cout << "  " << cst.alias << " := [" << cst.definition << "] "
      << (status == ParsingStatus::VERIFIED ? "VERIFIED" : "INCORRECT") << "\n";
    if (cst.type == CstType::term) {
      // the term mentioned one existing base set and one name without a constituent: it has to stay incorrect
      // and has to mention two different names
      const auto names = ccl::rslang::ExtractUGlobals(cst.definition);
      ok = ok && status == ParsingStatus::INCORRECT && names.size() == 2;
    }
  }
  return ok;
}

int main() {
  RSForm first{};
  first.Emplace(CstType::base);                                      // X1

  RSForm second{};
  second.Emplace(CstType::base);                                     // X1
  const auto d1 = second.Emplace(CstType::term, "X1\xC3\x97X2");     // D1 := X1×X2, X2 is not defined
  if (second.GetParse(d1).status != ParsingStatus::INCORRECT) {
    std::cout << "unexpected precondition\n";
    return 2;
  }

  bool ok = true;
  {
    RSForm merged = first;
    merged.Ops().MergeWith(second);
    ok = Check(merged, "MergeWith:") && ok;
  }
  {
    ccl::ops::BinarySynthes synthes{ first, second, ccl::ops::EquationOptions{} };
    const auto result = synthes.Execute();
    ok = result != nullptr && Check(*result, "BinarySynthes:") && ok;
  }
  {
    // the other direction: the dangling mention is in the schema that receives the constituents
    RSForm merged = second;
    merged.Ops().MergeWith(first);
    ok = Check(merged, "MergeWith (dangling mention in the receiving schema):") && ok;
  }
  std::cout << (ok ? "PASS" : "FAIL") << "\n";
  return ok ? 0 : 1;
}
