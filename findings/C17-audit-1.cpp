// C17-1: a well-formed reference directly preceded by '@' ("@@{X1|nomn}") is not extracted
#include "ccl/lang/RefsManager.h"
#include "ccl/lang/LexicalTerm.h"
#include "ccl/lang/ManagedText.h"
#include <iostream>

using namespace ccl;
using namespace ccl::lang;

class Ctx : public EntityTermContext {
public:
  std::unordered_map<std::string, LexicalTerm> terms;
  bool Contains(const std::string& e) const override { return terms.contains(e); }
  const LexicalTerm* At(const std::string& e) const override {
    auto it = terms.find(e); return it == terms.end() ? nullptr : &it->second;
  }
};

static int failures = 0;
static void Check(bool ok, const std::string& what) {
  std::cout << (ok ? "  ok   " : "  BAD  ") << what << "\n";
  if (!ok) ++failures;
}

int main() {
  Ctx ctx;
  ctx.terms.emplace("X1", LexicalTerm{ "Test" });

  // control: odd number of '@' works
  {
    const auto refs = Reference::ExtractAll("mail@@@{X1|nomn}");
    Check(refs.size() == 1 && refs[0].position == StrRange(6, 16), "control \"mail@@@{X1|nomn}\": 1 reference at [6,16)");
  }
  // failing: '@' immediately before the "@{" marker
  {
    const std::string text = "mail@@{X1|nomn} end";
    const auto refs = Reference::ExtractAll(text);
    std::cout << "ExtractAll(\"" << text << "\") -> " << refs.size() << " reference(s)\n";
    Check(refs.size() == 1 && refs[0].position == StrRange(5, 15) && refs[0].IsEntity() && refs[0].GetEntity() == "X1",
      "one entity reference X1 at [5,15)");

    RefsManager mgr{ ctx };
    const auto resolved = mgr.Resolve(text);
    std::cout << "Resolve -> \"" << resolved << "\"\n";
    Check(resolved == "mail@Test end", "resolved text is \"mail@Test end\"");
    Check(mgr.get().size() == 1 && mgr.get()[0].position == StrRange(5, 9), "resolved range [5,9)");

    ManagedText mt{ text };
    Check(mt.Referals() == std::unordered_set<std::string>{ "X1" }, "ManagedText::Referals() == {X1}");
    mt.TranslateRaw(CreateTranslator({ { "X1", "X7" } }));
    std::cout << "TranslateRaw(X1->X7) -> \"" << mt.Raw() << "\"\n";
    Check(mt.Raw() == "mail@@{X7|nomn} end", "TranslateRaw renames the entity");
  }
  // multi-byte text in front, two adjacent markers
  {
    const std::string text = "\xD1\x8F@@{X1|nomn}@{X1|sing}";
    const auto refs = Reference::ExtractAll(text);
    Check(refs.size() == 2 && refs[0].position == StrRange(2, 12) && refs[1].position == StrRange(12, 22),
      "cyrillic + \"@@{X1|nomn}@{X1|sing}\": references at [2,12) and [12,22)");
  }
  std::cout << (failures == 0 ? "PASS" : "FAIL") << "\n";
  return failures == 0 ? 0 : 1;
}
