// C01-1: names synthesised by the normaliser are not fresh.
//  (a) tuple binders (a,bc) and (ab,c) are both renamed to "@abc"; the interpreter keeps ONE slot per name,
//      so the inner binder overwrites the outer tuple while the outer one is still live.
//  (b) bound variables of an inlined term-function are renamed to "__var<N>", which is a legal user identifier
//      (the lexers accept (_|lower)(alnum)*), so a caller variable called __var1 is captured.
// Build: g++ -std=c++20 -O0 -w -DNDEBUG $(cat <lib>/inc.txt) demo.cpp <lib>/libccl.a -o demo
// ---- minimal evaluation environment (public API only) ----
#include "ccl/rslang/Interpreter.h"
#include "ccl/rslang/Literals.h"
#include <iostream>
#include <optional>
#include <string>
#include <unordered_map>

using ccl::rslang::operator""_t;
using ccl::object::Factory;
using ccl::object::StructuredData;

struct Env final : ccl::rslang::TypeContext {
  struct Element {
    std::optional<ccl::rslang::ExpressionType> type{};
    std::optional<ccl::rslang::FunctionArguments> arguments{};
    std::optional<ccl::rslang::SyntaxTree> ast{};
    std::optional<StructuredData> objects{};
  };
  std::unordered_map<std::string, Element> data{};

  void Insert(const std::string& name, const ccl::rslang::ExpressionType& type) { data[name].type = type; }
  bool AddFunction(const std::string& name, const std::string& definition,
                   const ccl::rslang::ExpressionType& type, ccl::rslang::FunctionArguments args) {
    ccl::rslang::Parser parser{};
    if (!parser.Parse(definition, ccl::rslang::Syntax::ASCII)) {
      return false;
    }
    data[name].ast = parser.AST();
    data[name].type = type;
    data[name].arguments = std::move(args);
    return true;
  }
  const ccl::rslang::ExpressionType* TypeFor(const std::string& name) const final {
    const auto it = data.find(name);
    return it == data.end() || !it->second.type.has_value() ? nullptr : &it->second.type.value();
  }
  const ccl::rslang::FunctionArguments* FunctionArgsFor(const std::string& name) const final {
    const auto it = data.find(name);
    return it == data.end() || !it->second.arguments.has_value() ? nullptr : &it->second.arguments.value();
  }
  std::optional<ccl::rslang::TypeTraits> TraitsFor(const ccl::rslang::Typification& type) const final {
    if (type == ccl::rslang::Typification::Integer()) {
      return ccl::rslang::TraitsIntegral;
    }
    return std::nullopt;
  }
  ccl::rslang::DataContext GetDataContext() {
    return [this](const std::string& name) -> std::optional<StructuredData> {
      const auto it = data.find(name);
      return it == data.end() ? std::nullopt : it->second.objects;
    };
  }
  ccl::rslang::SyntaxTreeContext GetAST() const {
    return [this](const std::string& name) -> const ccl::rslang::SyntaxTree* {
      const auto it = data.find(name);
      return it == data.end() || !it->second.ast.has_value() ? nullptr : &it->second.ast.value();
    };
  }
};

//! Evaluate and render: value text, or "ERROR <codes>" when evaluation fails
static std::string Eval(ccl::rslang::Interpreter& interpreter, const std::string& expr,
                        ccl::rslang::Syntax syntax = ccl::rslang::Syntax::ASCII) {
  const auto result = interpreter.Evaluate(expr, syntax);
  if (!result.has_value()) {
    std::string out{ "ERROR" };
    for (const auto& error : interpreter.Errors().All()) {
      char buffer[16]; std::snprintf(buffer, sizeof(buffer), " %04x", error.eid);
      out += buffer;
    }
    return out;
  }
  if (std::holds_alternative<bool>(result.value())) {
    return std::get<bool>(result.value()) ? "true" : "false";
  }
  return std::get<StructuredData>(result.value()).ToString();
}

static int failures = 0;
static void Expect(const std::string& what, const std::string& observed, const std::string& expected) {
  const bool ok = observed == expected;
  std::cout << (ok ? "  ok   " : "  BAD  ") << what << "\n         expected: " << expected << "\n         observed: " << observed << std::endl;
  if (!ok) {
    ++failures;
  }
}
// ---- end of environment ----

int main() {
  Env env{};
  env.Insert("S1", "B(Z*Z)"_t);
  env.data["S1"].objects = Factory::Set({ Factory::TupleV({ 1, 2 }), Factory::TupleV({ 3, 4 }) });
  env.Insert("C1", "B(Z)"_t);
  env.data["C1"].objects = Factory::SetV({ 1, 2, 3 });
  // F1[a] = C1 \ {a}
  if (!env.AddFunction("F1", R"(F1 \defexpr [a \in Z] D{x \in C1 | x \noteq a})", "B(Z)"_t,
                       { ccl::rslang::TypedID{ "a", "Z"_t } })) {
    std::cout << "setup failed" << std::endl;
    return 2;
  }
  ccl::rslang::Interpreter interpreter{ env, env.GetAST(), env.GetDataContext() };

  std::cout << "(a) nested tuple binders whose component names concatenate to the same string" << std::endl;
  // S1 = {(1,2),(3,4)}; the inner quantifier is true (1<2, 3<4), so the result must be {(1,2)}.
  Expect("ASCII, names (a,bc)/(ab,c)",
         Eval(interpreter, R"(D{(a,bc) \in S1 | \A (ab,c) \in S1 (ab \ls c) \and a \eq 1 \and bc \eq 2})"),
         "{(1, 2)}");
  Expect("same expression, bound variable bc renamed to bd (alpha-equivalent)",
         Eval(interpreter, R"(D{(a,bd) \in S1 | \A (ab,c) \in S1 (ab \ls c) \and a \eq 1 \and bd \eq 2})"),
         "{(1, 2)}");
  Expect("MATH syntax, names (a,bc)/(ab,c)",
         Eval(interpreter, "D{(a,bc)\xE2\x88\x88S1 | \xE2\x88\x80(ab,c)\xE2\x88\x88S1 (ab<c) & a=1 & bc=2}", ccl::rslang::Syntax::MATH),
         "{(1, 2)}");

  std::cout << "(b) caller variable named like a normaliser-generated one" << std::endl;
  // card(F1[z]) = card(C1 \ {z}) = 2 for every z in C1, so the result must be C1.
  Expect("D{z in C1 | card(F1[z]) = 2}",
         Eval(interpreter, R"(D{z \in C1 | card(F1[z]) \eq 2})"),
         "{1, 2, 3}");
  Expect("same expression, bound variable z renamed to __var1 (alpha-equivalent)",
         Eval(interpreter, R"(D{__var1 \in C1 | card(F1[__var1]) \eq 2})"),
         "{1, 2, 3}");

  std::cout << (failures == 0 ? "PASS" : "FAIL") << std::endl;
  return failures == 0 ? 0 : 1;
}
