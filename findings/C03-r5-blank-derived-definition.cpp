// C03-1: a derived constituent whose definition is blank (only whitespace) is accepted as if it were a base set:
// term D1 := " " is VERIFIED with typification B(D1), and other constituents can be typed over the "base set" D1.
#include "ccl/api/RSFormJA.h"
#include "ccl/tools/JSON.h"
#include <iostream>

using namespace ccl;
using JSON = nlohmann::ordered_json;
using semantic::CstType;
using semantic::ParsingStatus;

static std::string TypeStr(const semantic::ParsingInfo& info) {
  if (!info.exprType.has_value()) return "N/A";
  if (std::holds_alternative<rslang::LogicT>(*info.exprType)) return "LOGIC";
  return std::get<rslang::Typification>(*info.exprType).ToString();
}

int main() {
  bool fail = false;

  semantic::RSForm schema{};
  const auto x1 = schema.Emplace(CstType::base);           // X1
  const auto d1 = schema.Emplace(CstType::term, " ");      // D1 := <blank>
  const auto d2 = schema.Emplace(CstType::term, "D1");     // D2 := D1
  for (const auto uid : { x1, d1, d2 }) {
    std::cout << schema.GetRS(uid).alias << " := [" << schema.GetRS(uid).definition << "] status="
      << (schema.GetParse(uid).status == ParsingStatus::VERIFIED ? "VERIFIED" : "INCORRECT")
      << " type=" << TypeStr(schema.GetParse(uid)) << "\n";
  }
  if (schema.GetParse(d1).status == ParsingStatus::VERIFIED) {
    std::cout << "  -> term D1 with a blank definition is VERIFIED\n";
    fail = true;
  }
  if (schema.GetParse(d2).status == ParsingStatus::VERIFIED) {
    std::cout << "  -> D2 := D1 got a typification over the non-existent base set D1\n";
    fail = true;
  }

  auto wrapper = api::RSFormJA::FromData(std::move(schema));
  for (const std::string def : { "", " ", " \t\n" }) {
    const auto out = JSON::parse(wrapper.CheckConstituenta("D5", def, "term"));
    bool critical = false;
    for (const auto& error : out["errors"]) {
      critical = critical || error["isCritical"].get<bool>();
    }
    std::cout << "CheckConstituenta(D5, [" << (def == " \t\n" ? " \\t\\n" : def) << "], term): parseResult=" << out["parseResult"]
      << " typification=" << out["typification"] << " errors=" << out["errors"].dump() << "\n";
    if (out["parseResult"].get<bool>() || !critical) {
      fail = true;
    }
  }
  // control: the same blank text is refused for a base set as a non-empty definition
  const auto base = JSON::parse(wrapper.CheckConstituenta("X5", " ", "basic"));
  std::cout << "CheckConstituenta(X5, [ ], basic): parseResult=" << base["parseResult"] << "\n";
  // control: a proper term still passes
  const auto good = JSON::parse(wrapper.CheckConstituenta("D5", "X1\\X1", "term"));
  if (!good["parseResult"].get<bool>()) {
    std::cout << "control failed: X1\\X1 refused\n";
    fail = true;
  }

  std::cout << (fail ? "FAIL" : "PASS") << std::endl;
  return fail ? 1 : 0;
}
