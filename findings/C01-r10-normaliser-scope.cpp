// C01-2: normalising a tuple binder of a declarative set D{(a,b) in DOMAIN | ...} (and of an imperative block
// (a,b) :in DOMAIN) also rewrites occurrences of a / b that are OUTSIDE the binder's scope: inside DOMAIN itself and,
// for the imperative form, inside earlier blocks. A variable with the same name bound there (legal: the type checker
// only emits the warning 2801 "localDoubleDeclare"; quantifiers and recursion handle it correctly) gets its own
// declaration replaced by pr1(@ab), so the inner binder now iterates the OUTER tuple slot.
// Build: g++ -std=c++20 -O0 -w -DNDEBUG $(cat <lib>/inc.txt) demo.cpp <lib>/libccl.a -o demo
#include <sys/wait.h>
#include <unistd.h>
// ---- minimal evaluation environment (public API only) ----
#include "ccl/rslang/Interpreter.h"
#include "ccl/rslang/Literals.h"
#include <iostream>
#include <optional>
#include <string>
#include <unordered_map>

using ccl::rslang::operator""_t;
using ccl::object::Factory;
using ccl::object::StructuredData;

struct Env final : ccl::rslang::TypeContext {
  struct Element {
    std::optional<ccl::rslang::ExpressionType> type{};
    std::optional<ccl::rslang::FunctionArguments> arguments{};
    std::optional<ccl::rslang::SyntaxTree> ast{};
    std::optional<StructuredData> objects{};
  };
  std::unordered_map<std::string, Element> data{};

  void Insert(const std::string& name, const ccl::rslang::ExpressionType& type) { data[name].type = type; }
  bool AddFunction(const std::string& name, const std::string& definition,
                   const ccl::rslang::ExpressionType& type, ccl::rslang::FunctionArguments args) {
    ccl::rslang::Parser parser{};
    if (!parser.Parse(definition, ccl::rslang::Syntax::ASCII)) {
      return false;
    }
    data[name].ast = parser.AST();
    data[name].type = type;
    data[name].arguments = std::move(args);
    return true;
  }
  const ccl::rslang::ExpressionType* TypeFor(const std::string& name) const final {
    const auto it = data.find(name);
    return it == data.end() || !it->second.type.has_value() ? nullptr : &it->second.type.value();
  }
  const ccl::rslang::FunctionArguments* FunctionArgsFor(const std::string& name) const final {
    const auto it = data.find(name);
    return it == data.end() || !it->second.arguments.has_value() ? nullptr : &it->second.arguments.value();
  }
  std::optional<ccl::rslang::TypeTraits> TraitsFor(const ccl::rslang::Typification& type) const final {
    if (type == ccl::rslang::Typification::Integer()) {
      return ccl::rslang::TraitsIntegral;
    }
    return std::nullopt;
  }
  ccl::rslang::DataContext GetDataContext() {
    return [this](const std::string& name) -> std::optional<StructuredData> {
      const auto it = data.find(name);
      return it == data.end() ? std::nullopt : it->second.objects;
    };
  }
  ccl::rslang::SyntaxTreeContext GetAST() const {
    return [this](const std::string& name) -> const ccl::rslang::SyntaxTree* {
      const auto it = data.find(name);
      return it == data.end() || !it->second.ast.has_value() ? nullptr : &it->second.ast.value();
    };
  }
};

//! Evaluate and render: value text, or "ERROR <codes>" when evaluation fails
static std::string Eval(ccl::rslang::Interpreter& interpreter, const std::string& expr,
                        ccl::rslang::Syntax syntax = ccl::rslang::Syntax::ASCII) {
  const auto result = interpreter.Evaluate(expr, syntax);
  if (!result.has_value()) {
    std::string out{ "ERROR" };
    for (const auto& error : interpreter.Errors().All()) {
      char buffer[16]; std::snprintf(buffer, sizeof(buffer), " %04x", error.eid);
      out += buffer;
    }
    return out;
  }
  if (std::holds_alternative<bool>(result.value())) {
    return std::get<bool>(result.value()) ? "true" : "false";
  }
  return std::get<StructuredData>(result.value()).ToString();
}

static int failures = 0;
static void Expect(const std::string& what, const std::string& observed, const std::string& expected) {
  const bool ok = observed == expected;
  std::cout << (ok ? "  ok   " : "  BAD  ") << what << "\n         expected: " << expected << "\n         observed: " << observed << std::endl;
  if (!ok) {
    ++failures;
  }
}
// ---- end of environment ----

//! Evaluate in a child process: the unrepaired library dereferences a non-tuple as a tuple for some inputs
static std::string EvalIsolated(Env& env, const std::string& expr) {
  int fd[2];
  if (pipe(fd) != 0) {
    return "pipe failed";
  }
  const auto pid = fork();
  if (pid == 0) {
    close(fd[0]);
    ccl::rslang::Interpreter interpreter{ env, env.GetAST(), env.GetDataContext() };
    const auto text = Eval(interpreter, expr);
    (void)!write(fd[1], text.data(), text.size());
    _exit(0);
  }
  close(fd[1]);
  std::string out{};
  char buffer[256];
  for (ssize_t n = 0; (n = read(fd[0], buffer, sizeof(buffer))) > 0; ) {
    out.append(buffer, static_cast<size_t>(n));
  }
  close(fd[0]);
  int status = 0;
  waitpid(pid, &status, 0);
  if (WIFSIGNALED(status)) {
    return "CRASH (signal " + std::to_string(WTERMSIG(status)) + ")";
  }
  return out;
}

int main() {
  Env env{};
  env.Insert("S1", "B(Z*Z)"_t);
  env.data["S1"].objects = Factory::Set({ Factory::TupleV({ 1, 2 }), Factory::TupleV({ 3, 4 }) });
  env.Insert("C1", "B(Z)"_t);
  env.data["C1"].objects = Factory::SetV({ 1, 2, 3 });

  // D{a in S1 | a = (1,2)} = {(1,2)}, so every expression below selects the pair (1,2) (1 < 2).
  std::cout << "declarative: variable of the domain expression has the name of a tuple component" << std::endl;
  Expect("D{(a,b) in D{a in S1 | a=(1,2)} | a<b}",
         EvalIsolated(env, R"(D{(a,b) \in D{a \in S1 | a \eq (1,2)} | a \ls b})"), "{(1, 2)}");
  Expect("alpha-equivalent: outer a renamed to c",
         EvalIsolated(env, R"(D{(c,b) \in D{a \in S1 | a \eq (1,2)} | c \ls b})"), "{(1, 2)}");
  Expect("sibling implementation (quantifier) with the same shape",
         EvalIsolated(env, R"(\E (a,b) \in D{a \in S1 | a \eq (1,2)} (a \ls b))"), "true");
  Expect("D{(a,b) in D{a in C1 | a=a}*C1 | a=b}",
         EvalIsolated(env, R"(D{(a,b) \in D{a \in C1 | a \eq a}*C1 | a \eq b})"), "{(1, 1), (2, 2), (3, 3)}");

  std::cout << "imperative: same in the block's own domain and in an earlier block" << std::endl;
  Expect("I{x | x:in C1; (a,b) :in D{a in S1 | a=(1,2)}; a<b}",
         EvalIsolated(env, R"(I{x | x \from C1; (a,b) \from D{a \in S1 | a \eq (1,2)}; a \ls b})"), "{1, 2, 3}");
  Expect("I{x | x:in C1; forall a in C1 (a=a); (a,b) :in S1; a<b}",
         EvalIsolated(env, R"(I{x | x \from C1; \A a \in C1 (a \eq a); (a,b) \from S1; a \ls b})"), "{1, 2, 3}");

  std::cout << (failures == 0 ? "PASS" : "FAIL") << std::endl;
  return failures == 0 ? 0 : 1;
}
