// C05-2: a node with more than 32767 children (Index is int16_t) reports a negative ChildrenCount(),
// so the generator prints none of its children: a Cartesian product prints as "", an enumeration as "{}"
// (which the ASCII lexer reads as the empty-set literal - the text parses, to another tree).
//   ./demo        Cartesian product only (fast)
//   ./demo full   additionally the enumeration (the grammar action is quadratic: about a minute at -O0)
#include "ccl/rslang/Parser.h"
#include "ccl/rslang/RSGenerator.h"
#include <iostream>

using namespace ccl::rslang;

namespace {

bool failed = false;

void Check(const std::string& title, const std::string& input) {
  Parser parser{};
  if (!parser.Parse(input, Syntax::MATH)) {
    std::cout << title << ": refused by the parser (nothing to print, property holds vacuously)\n";
    return;
  }
  const auto tree = parser.ExtractAST();
  std::cout << title << ": parsed, root has ChildrenCount() = " << tree->Root().ChildrenCount() << "\n";
  for (const auto syntax : { Syntax::MATH, Syntax::ASCII }) {
    const auto text = Generator::FromTree(*tree, syntax);
    const auto* name = syntax == Syntax::MATH ? "  MATH " : "  ASCII";
    std::cout << name << " text has " << size(text) << " bytes: '" << text.substr(0, 24) << (size(text) > 24 ? "..." : "") << "'";
    if (!parser.Parse(text, syntax)) {
      std::cout << " -> does not parse\n";
      failed = true;
    } else if (!(parser.AST() == *tree)) {
      std::cout << " -> parses to a different tree: " << AST2String::Apply(parser.AST()).substr(0, 40) << "\n";
      failed = true;
    } else {
      std::cout << " -> equal tree\n";
    }
  }
}

std::string Repeat(const std::string& first, const std::string& separator, const int count) {
  std::string result = first;
  for (auto i = 1; i < count; ++i) {
    result += separator;
    result += first;
  }
  return result;
}

} // namespace

int main(int argc, char** /*argv*/) {
  static constexpr auto maxIndex = 32767;
  Check("product of 32767 operands", Repeat("X1", "\xC3\x97", maxIndex));
  Check("product of 32768 operands", Repeat("X1", "\xC3\x97", maxIndex + 1));
  if (argc > 1) {
    Check("enumeration of 32768 elements", "{" + Repeat("1", ",", maxIndex + 1) + "}");
  }
  std::cout << (failed ? "FAIL" : "PASS") << "\n";
  return failed ? 1 : 0;
}
