// C10-1: the identifiers of base-set elements are lost when a model is saved to JSON and loaded back.
// History: X1 gets three elements (ids 1,2,3), S1 := B(X1) holds {2,3}, then element 1 is deleted from X1
// (TextInterpretation::EraseInterpretee + SetBasicText - the only way the API offers to delete an element).
#include "ccl/tools/JSON.h"
#include "ccl/semantic/RSModel.h"
#include <iostream>

using JSON = nlohmann::ordered_json;
using ccl::semantic::RSModel;
using ccl::semantic::CstType;
using ccl::semantic::TextInterpretation;
using ccl::object::Factory;

static std::string Describe(const RSModel& model, ccl::EntityUID x1, ccl::EntityUID s1) {
  std::string result = "X1=" + model.Values().SDataFor(x1)->ToString() + " names={";
  for (const auto& [id, name] : *model.Values().TextFor(x1)) {
    result += std::to_string(id) + ":" + name + " ";
  }
  result += "} S1=" + model.Values().SDataFor(s1)->ToString();
  return result;
}

int main() {
  RSModel model{};
  const auto x1 = model.Emplace(CstType::base);
  const auto s1 = model.Emplace(CstType::structured, "\xE2\x84\xAC(X1)"); // B(X1)
  model.Values().AddBasicElement(x1, "alice"); // id 1
  model.Values().AddBasicElement(x1, "bob");   // id 2
  model.Values().AddBasicElement(x1, "carol"); // id 3
  if (!model.Values().SetStructureData(s1, Factory::SetV({ 2, 3 }))) {
    std::cout << "setup failed\n";
    return 2;
  }
  auto names = *model.Values().TextFor(x1);
  names.EraseInterpretee(1); // delete alice
  if (!model.Values().SetBasicText(x1, names)) {
    std::cout << "setup failed\n";
    return 2;
  }

  const auto document = JSON(model);
  RSModel restored{};
  document.get_to(restored);
  const auto document2 = JSON(restored);

  const auto before = Describe(model, x1, s1);
  const auto after = Describe(restored, x1, s1);
  std::cout << "original: " << before << "\n";
  std::cout << "restored: " << after << "\n";
  std::cout << "data saved    : " << document["data"].dump() << "\n";
  std::cout << "data re-saved : " << document2["data"].dump() << "\n";

  bool ok = true;
  if (*restored.Values().TextFor(x1) != *model.Values().TextFor(x1)) {
    std::cout << "element names of X1 are attached to other identifiers after loading\n";
    ok = false;
  }
  if (restored.Values().SDataFor(x1) != model.Values().SDataFor(x1)) {
    std::cout << "value of X1 differs after loading\n";
    ok = false;
  }
  if (document.dump() != document2.dump()) {
    std::cout << "saving the loaded model gives another document\n";
    ok = false;
  }
  std::cout << (ok ? "PASS" : "FAIL") << "\n";
  return ok ? 0 : 1;
}
