// C03 finding 1: a template parameter (radical) whose number has a leading zero (R01, R007, ...)
// is accepted in a function declaration but never instantiated at a call.
#include "ccl/semantic/Schema.h"
#include "ccl/rslang/Auditor.h"

#include <iostream>
#include <string>

using ccl::semantic::Schema;
using ccl::semantic::CstType;
using ccl::semantic::ParsingStatus;
using ccl::rslang::Typification;
using ccl::rslang::ExpressionType;

static int failures = 0;

static std::string Show(const std::optional<ExpressionType>& type) {
  if (!type.has_value()) {
    return "<rejected>";
  } else if (std::holds_alternative<Typification>(type.value())) {
    return std::get<Typification>(type.value()).ToString();
  } else {
    return "LOGIC";
  }
}

static void Expect(const Schema& schema, const std::string& expr, const std::string& expected) {
  const auto result = Show(schema.Evaluate(expr));
  const bool ok = result == expected;
  std::cout << (ok ? "  ok   " : "  BAD  ") << expr << "  ->  " << result << "   (expected " << expected << ")\n";
  if (!ok) {
    ++failures;
  }
}

int main() {
  Schema schema{};
  schema.Emplace(1, "X1", CstType::base);
  schema.Emplace(2, "S1", CstType::structured, "X1");                       // S1 is an element of X1
  schema.Emplace(3, "F1", CstType::function, "[α∈R1] {α}");                 // reference: parameter R1
  schema.Emplace(4, "F2", CstType::function, "[α∈R01] {α}");                // same function, parameter R01
  schema.Emplace(5, "F3", CstType::function, "[α∈ℬ(R1), β∈ℬ(R2)] α×β");    // reference
  schema.Emplace(6, "F4", CstType::function, "[α∈ℬ(R1), β∈ℬ(R02)] α×β");   // same function, parameter R02
  schema.Emplace(7, "F5", CstType::function, "[α∈R10] {α}");                // zero not in front: works

  for (const ccl::EntityUID uid : { 3U, 4U, 5U, 6U, 7U }) {
    const bool verified = schema.InfoFor(uid).status == ParsingStatus::VERIFIED;
    std::cout << schema.At(uid).alias << " := " << schema.At(uid).definition
      << (verified ? "   VERIFIED" : "   INCORRECT") << "\n";
    if (!verified) {
      ++failures; // the declarations themselves are accepted - R01 is lexed as a radical
    }
  }

  Expect(schema, "F1[S1]", "ℬ(X1)");
  Expect(schema, "F2[S1]", "ℬ(X1)");          // observed: rejected, invalidArgumentType (R01 vs X1)
  Expect(schema, "F5[S1]", "ℬ(X1)");
  Expect(schema, "F3[X1, X1]", "ℬ(X1×X1)");
  Expect(schema, "F4[X1, X1]", "ℬ(X1×X1)");   // observed: rejected
  Expect(schema, "F3[X1, ∅]", "ℬ(X1×R0)");
  Expect(schema, "F4[X1, ∅]", "ℬ(X1×R0)");    // observed: ℬ(X1×R02) - the parameter leaks into the reported type

  std::cout << (failures == 0 ? "PASS" : "FAIL") << "\n";
  return failures == 0 ? 0 : 1;
}
