// C03-2: a tuple binder over a domain of the "any" type (elements of the empty set) is rejected, although every other
// way to take such an element apart (pr, Pr, Fi, red) is accepted. The first round of the type deduction of a recursion
// types the variable by its initial value, so a well-typed recursion that starts from {} and destructures its variable
// with a tuple binder is refused.
#include "ccl/api/RSFormJA.h"
#include "ccl/rslang/RSGenerator.h"
#include "ccl/tools/JSON.h"
#include <iostream>

using namespace ccl;
using JSON = nlohmann::ordered_json;
using semantic::CstType;

int main() {
  semantic::RSForm schema{};
  schema.Emplace(CstType::base);                                                           // X1
  schema.Emplace(CstType::structured, rslang::ConvertTo("B(X1*X1)", rslang::Syntax::MATH)); // S1
  auto wrapper = api::RSFormJA::FromData(std::move(schema));

  bool fail = false;
  const auto check = [&](const std::string& expr, const bool expectOK, const std::string& expectType) {
    const auto out = JSON::parse(wrapper.CheckExpression(expr, rslang::Syntax::ASCII));
    const bool ok = out["parseResult"].get<bool>();
    const std::string type = out["typification"].get<std::string>();
    const bool good = ok == expectOK && (!ok || type == expectType);
    std::cout << (good ? "  ok   " : "  BAD  ") << expr << "\n         -> parseResult=" << ok << " type=" << type
      << " errors=" << out["errors"].dump() << "\n";
    fail = fail || !good;
  };

  const std::string typeS1 = "ℬ(X1×X1)";
  // symmetric closure of S1, the initial value is typed, binder form: accepted (control)
  check(R"(R{a \assign S1 \setminus S1 | a \union S1 \union I{(y,x) | (x,y) \from a}})", true, typeS1);
  // same recursion from {}, written with projections: accepted (control)
  check(R"(R{a \assign {} | a \union S1 \union I{(pr2(t),pr1(t)) | t \from a}})", true, typeS1);
  // same recursion from {}, written with a tuple binder: must be accepted with the same type
  check(R"(R{a \assign {} | a \union S1 \union I{(y,x) | (x,y) \from a}})", true, typeS1);
  check(R"(R{a \assign {} | a \union S1 \union D{(x,y) \in a | x \eq y}})", true, typeS1);
  // quantifier forms: projections over elements of {} are accepted, the equivalent binder must be too
  check(R"(\A t \in {} pr1(t) \eq pr2(t))", true, "LOGIC");
  check(R"(\A (a,b) \in {} a \eq b)", true, "LOGIC");
  // controls: binder arity is still checked against a known type
  check(R"(\A (a,b) \in X1 a \eq b)", false, "");
  check(R"(\A (a,b,c) \in S1 a \eq b)", false, "");

  std::cout << (fail ? "FAIL" : "PASS") << std::endl;
  return fail ? 1 : 0;
}
