// C12 finding 4: an inadmissible table is not refused, the check throws std::bad_optional_access instead.
// Schema: X1, X2, D1 := card(X2) (an integer), D2 := X1\X1, D3 := X1\X1\X1
// Table { X1 -> D1, D2 -> D3 }: to compare D2 and D3 their typification B(X1) is rewritten to B(D1); D1 is a number,
// B(D1) has no type, and the processor dereferences the empty result.
// Expected: IsEquatable == false, Equate == nullopt, BinarySynthes::IsCorrectlyDefined == false, nothing modified, nothing thrown.
// (C) The same rewriting loop has no termination guarantee. Schema: X1, X2, C1, D1 := X1\X1, D2 := D1\D1, D3 := C1*C1, D4 := X2\X2,
// table { X1 -> D4, X2 -> D2, D1 -> D3 }: every pair passes the prechecks and the definitions after the equation contain no loop
// (D3 := C1*C1, D2 := D3\D3, D4 := D2\D2), but the typification of D1 is rewritten B(X1) -> B(D4) = B(X2) -> B(D2) = B(X1) -> ...
// Expected: an answer (refusal is fine). Observed: IsEquatable never returns.
#include "ccl/semantic/RSForm.h"
#include "ccl/ops/RSOperations.h"
#include "ccl/rslang/Literals.h"
#include <iostream>
#include <csignal>
#include <unistd.h>

using ccl::semantic::RSForm;
using ccl::semantic::CstType;
using ccl::ops::EquationOptions;
using ccl::rslang::operator""_rs;

static void OnAlarm(int) {
  const char msg[] = "(C) IsEquatable did not return within 10 s\nFAIL\n";
  (void)!write(1, msg, sizeof(msg) - 1);
  _exit(1);
}

int main() {
  bool ok = true;
  {
    RSForm s{};
    const auto x1 = s.Emplace(CstType::base);
    s.Emplace(CstType::base);
    const auto d1 = s.Emplace(CstType::term, "card(X2)"_rs);
    const auto d2 = s.Emplace(CstType::term, "X1\\X1"_rs);
    const auto d3 = s.Emplace(CstType::term, "X1\\X1\\X1"_rs);
    s.UpdateState();
    const RSForm before{ s };
    EquationOptions table{};
    table.Insert(x1, d1);
    table.Insert(d2, d3);
    try {
      const bool accepted = s.Ops().IsEquatable(table);
      std::cout << "IsEquatable = " << accepted << "\n";
      ok = ok && !accepted;
    } catch (const std::exception& e) {
      std::cout << "IsEquatable threw: " << e.what() << "\n";
      ok = false;
    }
    try {
      const auto result = s.Ops().Equate(table);
      std::cout << "Equate " << (result.has_value() ? "accepted" : "refused") << "\n";
      ok = ok && !result.has_value();
    } catch (const std::exception& e) {
      std::cout << "Equate threw: " << e.what() << "\n";
      ok = false;
    }
    ok = ok && s.CoreHash() == before.CoreHash() && std::size(s.Core()) == std::size(before.Core());
  }
  {
    // the same table through synthesis: operand 1 = { X1, D1 := X1\X1 }, operand 2 = { X1, D1 := card(X1), D2 := X1\X1 }
    RSForm a{}, b{};
    const auto ax1 = a.Emplace(CstType::base);
    const auto ad1 = a.Emplace(CstType::term, "X1\\X1"_rs);
    b.Emplace(CstType::base);
    const auto bd1 = b.Emplace(CstType::term, "card(X1)"_rs);
    const auto bd2 = b.Emplace(CstType::term, "X1\\X1"_rs);
    EquationOptions table{};
    table.Insert(ax1, bd1);
    table.Insert(ad1, bd2);
    try {
      ccl::ops::BinarySynthes op{ a, b, table };
      std::cout << "BinarySynthes::IsCorrectlyDefined = " << op.IsCorrectlyDefined() << "\n";
      ok = ok && !op.IsCorrectlyDefined() && op.Execute() == nullptr;
    } catch (const std::exception& e) {
      std::cout << "BinarySynthes constructor threw: " << e.what() << "\n";
      ok = false;
    }
  }
  {
    RSForm s{};
    const auto x1 = s.Emplace(CstType::base);
    const auto x2 = s.Emplace(CstType::base);
    s.Emplace(CstType::constant);
    const auto d1 = s.Emplace(CstType::term, "X1\\X1"_rs);
    const auto d2 = s.Emplace(CstType::term, "D1\\D1"_rs);
    const auto d3 = s.Emplace(CstType::term, "C1*C1"_rs);
    const auto d4 = s.Emplace(CstType::term, "X2\\X2"_rs);
    s.UpdateState();
    const RSForm before{ s };
    EquationOptions table{};
    table.Insert(x1, d4);
    table.Insert(x2, d2);
    table.Insert(d1, d3);
    std::cout.flush();
    signal(SIGALRM, OnAlarm);
    alarm(10);
    const bool accepted = s.Ops().IsEquatable(table);
    const auto result = s.Ops().Equate(table);
    alarm(0);
    std::cout << "(C) IsEquatable = " << accepted << ", Equate " << (result.has_value() ? "accepted" : "refused") << "\n";
    if (result.has_value()) {
      for (const auto uid : s.List()) {
        const bool verified = s.GetParse(uid).status == ccl::semantic::ParsingStatus::VERIFIED;
        std::cout << "    " << s.GetRS(uid).alias << " := " << s.GetRS(uid).definition << (verified ? "" : "    <-- INCORRECT") << "\n";
      }
    } else {
      ok = ok && !accepted && s.CoreHash() == before.CoreHash() && std::size(s.Core()) == std::size(before.Core());
    }
  }
  std::cout << (ok ? "PASS" : "FAIL") << std::endl;
  return ok ? 0 : 1;
}
