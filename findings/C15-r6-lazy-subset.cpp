// replay for C15 r6/IsSubsetOrEq: a lazy product or power set is reported to be a subset of a set that misses its first element
#include "ccl/rslang/StructuredData.h"
#include <iostream>
using namespace ccl::object;
int main() {
  int bad = 0;
  const auto A = Factory::SetV({1, 2});
  const auto B = Factory::SetV({3, 4});
  const auto prod = Factory::Decartian({A, B});
  const auto empty = Factory::EmptySet();
  const auto pw = Factory::Boolean(A);
  const auto one = Factory::Singleton(Factory::SetV({1}));
  if (prod.B().IsSubsetOrEq(empty.B())) { std::cout << "FAIL {1,2}x{3,4} is reported to be a subset of {}\n"; ++bad; }
  if (pw.B().IsSubsetOrEq(one.B())) { std::cout << "FAIL B({1,2}) is reported to be a subset of {{1}}\n"; ++bad; }
  const auto last = Factory::Set({Factory::TupleV({2, 4})});
  if (prod.B().IsSubsetOrEq(last.B())) { std::cout << "FAIL {1,2}x{3,4} is reported to be a subset of {(2,4)}\n"; ++bad; }
  // sanity: the enumerated equivalents answer correctly
  const auto en = Factory::Set({Factory::TupleV({1,3}), Factory::TupleV({1,4}), Factory::TupleV({2,3}), Factory::TupleV({2,4})});
  if (en.B().IsSubsetOrEq(empty.B())) { std::cout << "FAIL enumerated\n"; ++bad; }
  std::cout << (bad ? "FAIL" : "PASS") << "\n";
  return bad ? 1 : 0;
}
