#!/bin/bash
# Builds the extractor offline from /verif/tools (clang 14 LibTooling, linked by path).
set -e
cd "$(dirname "$0")"
mkdir -p build
python3 - <<'PY'
import sys
sys.path.insert(0, '.')
from engine.facts import ensure_tool
ensure_tool()
print('cclfacts ready')
PY
