"""CFG path queries and small interprocedural summaries used by the MUST-CALL / ORDER / CO-UPDATE rules."""
from .facts import AnalysisBroken

CALL_KINDS = ('CallExpr', 'CXXMemberCallExpr', 'CXXOperatorCallExpr', 'CXXConstructExpr', 'CXXTemporaryObjectExpr')


def call_sites(fn, pred):
    """[(position, node)] of calls in fn satisfying pred(node) that are evaluated in the CFG."""
    out = []
    for n in fn.calls():
        if pred(n):
            p = fn.position_of(n)
            if p is not None:
                out.append((p, n))
    return out


def transitive_calls(db, fn, pred, depth=6, restrict=None, _seen=None):
    """Does fn contain (directly or through repo callees, to `depth`) a call satisfying pred?  Returns the
    witness chain [(fn, call node), ...] or None.  `restrict(callee Fn)` limits which callees are entered."""
    if _seen is None:
        _seen = set()
    key = (fn.name, fn.mn)
    if key in _seen:
        return None
    _seen.add(key)
    for n in fn.calls():
        if pred(n):
            return [(fn, n)]
    if depth <= 0:
        return None
    for n in fn.calls():
        for t in db.callees(fn, n):
            if restrict is not None and not restrict(t):
                continue
            w = transitive_calls(db, t, pred, depth - 1, restrict, _seen)
            if w is not None:
                return [(fn, n)] + w
    # lambdas defined in fn are part of fn
    for lf in db.lambdas_in(fn):
        w = transitive_calls(db, lf, pred, depth - 1, restrict, _seen)
        if w is not None:
            return w
    return None


def success_exits(fn, failure_literals=('false', 'nullopt', 'nullptr')):
    """Exit predecessor blocks whose exit is a 'success': a return that is not a constant refusal, or fall-off
    for void functions.  Returns list of (position of the return/end, description)."""
    out = []
    for bid, kind, node in fn.exit_kinds():
        b = fn.blocks[bid]
        if kind == 'return':
            lit = fn.return_literal(node)
            if lit in failure_literals:
                continue
            pos = fn.element_positions().get(node['id'])
            if pos is None:
                pos = (bid, len(b['el']))
            out.append((pos, 'return %s at %s' % (node.get('txt', '')[7:60] if node.get('txt', '').startswith('return') else node.get('txt', '')[:60], fn.loc(node))))
        elif kind == 'falloff':
            out.append(((bid, len(b['el'])), 'end of function'))
    return out


def paths_avoiding(fn, start_positions, blocked_positions, targets):
    """For each start, can a target be reached without passing a blocked position?  Returns list of
    (start, target) pairs that are so reachable.  The start itself is not considered blocked."""
    succ, entry, exit_ = fn.graph()
    bad = []
    blocked = set(blocked_positions)
    tset = {t for t, _ in targets}
    for s in start_positions:
        seen = set()
        stack = list(succ.get(s, []))
        hit = None
        while stack:
            p = stack.pop()
            if p in seen:
                continue
            seen.add(p)
            if p in tset:
                hit = p
                break
            if p in blocked:
                continue
            stack.extend(succ.get(p, []))
        if hit is not None:
            bad.append((s, hit))
    return bad


def always_calls(db, fn, pred, depth=4, _memo=None):
    """Every path from entry to a success exit of fn passes a call satisfying pred (or a callee that always does)."""
    if _memo is None:
        _memo = {}
    key = (fn.name, fn.mn)
    if key in _memo:
        return _memo[key]
    _memo[key] = False  # recursion: assume not
    if not fn.has_cfg():
        return False

    def fam(n):
        if pred(n):
            return True
        if depth > 0:
            ts = db.callees(fn, n)
            return bool(ts) and all(always_calls(db, t, pred, depth - 1, _memo) for t in ts)
        return False
    fam_pos = [p for p, _ in call_sites(fn, fam)]
    succ, entry, exit_ = fn.graph()
    ex = success_exits(fn)
    if not ex:
        _memo[key] = True
        return True
    # reach from entry avoiding family
    blocked = set(fam_pos)
    seen = set()
    stack = [entry]
    tset = {t for t, _ in ex}
    ok = True
    while stack:
        p = stack.pop()
        if p in seen or p in blocked:
            continue
        seen.add(p)
        if p in tset:
            ok = False
            break
        stack.extend(succ.get(p, []))
    _memo[key] = ok
    return ok


def callee_is(*names):
    s = set(names)
    return lambda n: n.get('callee') in s


def describe_pos(fn, pos):
    b = fn.blocks.get(pos[0])
    if b is None:
        return 'B%d' % pos[0]
    el = b['el']
    if pos[1] < len(el) and isinstance(el[pos[1]], int):
        n = fn.stmts.get(el[pos[1]])
        if n:
            return '%s `%s`' % (fn.loc(n), n.get('txt', '')[:70])
    return 'B%d.%d' % pos


# ------------------------------------------------------------------------------------------------
# guards: branch conditions that dominate a position

def cond_edges(fn):
    """[(block id, cond node, true successor, false successor)] for two-way conditional blocks."""
    out = []
    for bid, b in fn.blocks.items():
        if 'termcond' in b and len(b['succ']) == 2 and b.get('termk') != 'CXXTryStmt':
            c = fn.stmts.get(b['termcond'])
            if c is not None:
                out.append((bid, c, b['succ'][0], b['succ'][1]))
    return out


import os as _os
RELEASE_SEMANTICS = _os.environ.get('VERIF_ASSERTS_GUARD', '') != '1'


def is_assert_cond(fn, c):
    """c is the condition of an assert() expansion: `(c) ? (void)0 : __assert_fail(...)` (facts are extracted with asserts visible)"""
    cache = fn.__dict__.setdefault('_assert_conds', None)
    if cache is None:
        cache = set()
        for n in fn.walk():
            if n['k'] == 'ConditionalOperator' and 'else' in n and any((x.get('callee') or x.get('cs') or '') == '__assert_fail' for x in fn.walk(fn.stmts[n['else']]) if x['k'] == 'CallExpr'):
                for x in fn.walk(fn.stmts[n['cond']]):
                    cache.add(x['id'])
        fn.__dict__['_assert_conds'] = cache
    return c is not None and c.get('id') in cache


def dominating_guards(fn, pos):
    """[(cond node, polarity)] such that every path from entry to pos takes that branch of that condition."""
    succ, entry, exit_ = fn.graph()
    res = []
    for bid, c, t, f in cond_edges(fn):
        if t == f:
            continue
        if RELEASE_SEMANTICS and is_assert_cond(fn, c):
            continue          # assert(c): compiled out in the shipped (NDEBUG) library, so it guards nothing
        end = (bid, len(fn.blocks[bid]['el']))
        for pol, removed in ((True, f), (False, t)):
            # remove the *other* edge: if pos becomes unreachable... no: pos must be unreachable when the required edge is removed
            required = t if pol else f
            if required is None:
                continue
            if not _reach_without_edge(succ, entry, pos, end, (required, 0)):
                res.append((c, pol))
    return res


def _reach_without_edge(succ, start, goal, efrom, eto):
    seen = set()
    stack = [start]
    while stack:
        p = stack.pop()
        if p == goal:
            return True
        if p in seen:
            continue
        seen.add(p)
        for q in succ.get(p, []):
            if p == efrom and q == eto:
                continue
            stack.append(q)
    return False


def normalise_cond(fn, c, pol):
    """Strip parentheses/casts and leading '!' (flipping polarity)."""
    c = fn.strip(c)
    while c is not None and c['k'] == 'UnaryOperator' and c.get('op') == '!':
        pol = not pol
        c = fn.strip(fn.children(c)[0])
    return c, pol


def guard_atoms(fn, pos):
    """Normalised atoms that hold at pos: list of (kind, root, polarity, node).
    kinds: has_value(x) / nonnull(x) / contains(c,k) / empty(x) / other(text)."""
    atoms = []
    work = list(dominating_guards(fn, pos))
    while work:
        c, pol = work.pop()
        c, pol = normalise_cond(fn, c, pol)
        if c is None:
            continue
        k = c['k']
        if k == 'BinaryOperator' and ((c.get('op') == '||' and not pol) or (c.get('op') == '&&' and pol)):
            for x in fn.children(c):
                work.append((x, pol))
            continue
        callee = c.get('cs') or ''
        if k == 'CXXMemberCallExpr' and callee.split('::')[-1] in ('has_value', 'operator bool') and 'obj' in c:
            atoms.append(('has_value', fn.root_of(fn.stmts[c['obj']]), pol, c))
        elif k == 'CXXMemberCallExpr' and '::operator ' in callee and (c.get('t') or '').rstrip().endswith('*') and 'obj' in c:
            atoms.append(('nonnull', fn.root_of(fn.stmts[c['obj']]), pol, c))      # a wrapper converted to its raw pointer and tested: `if (!p)`
        elif k == 'CXXMemberCallExpr' and callee.split('::')[-1] in ('contains', 'Contains', 'ContainsKey', 'count') and 'obj' in c:
            atoms.append(('contains', (fn.root_of(fn.stmts[c['obj']]), tuple(fn.root_of(fn.stmts[a]) for a in c.get('args', []))), pol, c))
        elif k == 'CXXMemberCallExpr' and callee.split('::')[-1] in ('empty', 'IsEmpty') and 'obj' in c:
            atoms.append(('empty', fn.root_of(fn.stmts[c['obj']]), pol, c))
        elif k == 'CallExpr' and callee in ('std::empty',) and c.get('args'):
            atoms.append(('empty', fn.root_of(fn.stmts[c['args'][0]]), pol, c))
        elif k == 'CallExpr' and callee in ('std::holds_alternative',) and c.get('args'):
            atoms.append(('holds:' + ','.join(c.get('targs', [])), fn.root_of(fn.stmts[c['args'][0]]), pol, c))
        elif k in ('BinaryOperator', 'CXXOperatorCallExpr') and c.get('op') in ('==', '!='):
            kids = [fn.strip(x) for x in (fn.children(c) if k == 'BinaryOperator' else [fn.stmts[a] for a in c['args']])]
            if len(kids) == 2:
                nulls = [x for x in kids if x['k'] in ('CXXNullPtrLiteralExpr', 'GNUNullExpr') or (x['k'] == 'DeclRefExpr' and x.get('name') == 'nullopt')]
                others = [x for x in kids if x not in nulls]
                if len(nulls) == 1 and len(others) == 1:
                    isnull = (c['op'] == '==') == pol
                    kind = 'has_value' if nulls[0]['k'] == 'DeclRefExpr' else 'nonnull'
                    atoms.append((kind, fn.root_of(others[0]), not isnull, c))
                    continue
            atoms.append(('other', c.get('txt', ''), pol, c))
        elif k in ('DeclRefExpr', 'MemberExpr') and ('*' in c.get('t', '') or 'unique_ptr' in c.get('t', '') or 'shared_ptr' in c.get('t', '')):
            atoms.append(('nonnull', fn.root_of(c), pol, c))
        elif k in ('DeclRefExpr', 'MemberExpr') and 'optional' in c.get('t', ''):
            atoms.append(('has_value', fn.root_of(c), pol, c))
        else:
            atoms.append(('other', c.get('txt', ''), pol, c))
    return atoms


def enumerate_paths(fn, start, goals, avoid=(), limit=4000):
    """Acyclic paths start -> any goal that never enter a position in `avoid`.
    Each path is the list of branch decisions [(cond node, polarity)] taken at two-way conditional blocks."""
    succ, entry, exit_ = fn.graph()
    goals = set(goals)
    avoid = set(avoid)
    blocks = fn.blocks
    out = []

    def rec(p, seen, decisions):
        if len(out) >= limit:
            return
        if p in goals:
            out.append(list(decisions))
            return
        if p in avoid or p in seen:
            return
        seen = seen | {p}
        b = blocks.get(p[0])
        nxt = succ.get(p, [])
        if b is not None and p[1] == len(b['el']) and 'termcond' in b and len(b['succ']) == 2 and b.get('termk') != 'CXXTryStmt':
            c = fn.stmts.get(b['termcond'])
            for pol, s in ((True, b['succ'][0]), (False, b['succ'][1])):
                if s is None:
                    continue
                rec((s, 0), seen, decisions + [(c, pol)] if c is not None else decisions)
            return
        for q in nxt:
            rec(q, seen, decisions)
    rec(start, frozenset(), [])
    return out
