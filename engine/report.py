"""Rule bookkeeping, known-findings matching, evidence and replay files, exit codes.

exit 0  every instance of every rule holds (or fails only as listed in known_findings.json)
exit 1  VIOLATION property=<id> replay=<path>
exit 2  ANALYSIS-BROKEN property=<id> reason=...
"""
import json
import os
import time

VERIF = os.path.dirname(os.path.dirname(os.path.abspath(__file__)))
KNOWN = os.path.join(VERIF, 'known_findings.json')


class Rule:
    def __init__(self, report, rid, text, min_instances):
        self.report = report
        self.rid = rid
        self.text = text
        self.min_instances = min_instances
        self.instances = []   # dicts: instance, verdict, where, detail, nontrivial
        self.broken_reason = None

    def ok(self, instance, detail='', where='', nontrivial=True):
        self.instances.append({'instance': instance, 'verdict': 'holds', 'where': where, 'detail': detail, 'nontrivial': nontrivial})

    def violation(self, instance, where, detail, path=None):
        self.instances.append({'instance': instance, 'verdict': 'violated', 'where': where, 'detail': detail, 'path': path, 'nontrivial': True})

    def broken(self, reason):
        self.broken_reason = reason if not self.broken_reason else self.broken_reason + ' | ' + reason

    def count(self):
        return len(self.instances)


class Report:
    def __init__(self, pid, tier='quick', root='/repo', only=None):
        self.pid = pid
        self.tier = tier
        self.root = root
        self.rules = []
        self.t0 = time.time()
        self.analysed = {}
        self.assumptions = []
        self.explanation = ''
        self.only = only  # (rule, instance) filter for --replay
        self.trusted = ['clang 14 front end and CFG builder', '/verif extractor and rule engine']

    def rule(self, rid, text, min_instances=1):
        r = Rule(self, rid, text, min_instances)
        self.rules.append(r)
        return r

    def note(self, key, value):
        self.analysed[key] = value

    def finish(self):
        known = []
        if os.path.exists(KNOWN):
            with open(KNOWN) as fh:
                known = json.load(fh).get('findings', [])
        kn = {(k['property'], k['rule'], k['instance']): k for k in known if k.get('status') == 'known'}
        broken = []
        violations = []
        known_hits = []
        total = 0
        nontriv = set()
        for r in self.rules:
            if r.broken_reason:
                broken.append('%s: %s' % (r.rid, r.broken_reason))
                continue
            if self.only is None and r.count() < r.min_instances:
                broken.append('%s: matched %d instances, fewer than the %d confirmed by reading' % (r.rid, r.count(), r.min_instances))
            for i in r.instances:
                if self.only and (r.rid, i['instance']) != self.only:
                    continue
                total += 1
                if i['nontrivial']:
                    nontriv.add((r.rid, i['instance']))
                if i['verdict'] == 'violated':
                    k = (self.pid, r.rid, i['instance'])
                    if k in kn:
                        known_hits.append((r, i, kn[k]))
                    else:
                        violations.append((r, i))
        wall = time.time() - self.t0
        code = 0
        lines = []
        replay_dir = os.path.join(VERIF, 'build', 'replay')
        os.makedirs(replay_dir, exist_ok=True)
        for r, i, k in known_hits:
            lines.append('KNOWN-FINDING: property=%s rule=%s instance=%s at %s: %s' % (self.pid, r.rid, i['instance'], i['where'], k.get('what', i['detail'])))
        if broken:
            code = 2
            for b in broken:
                lines.append('ANALYSIS-BROKEN property=%s reason=%s' % (self.pid, b))
        if violations:
            code = 1
            for n, (r, i) in enumerate(violations):
                path = os.path.join(replay_dir, '%s-%d.json' % (self.pid, n))
                with open(path, 'w') as fh:
                    json.dump({'property': self.pid, 'rule': r.rid, 'rule_text': r.text, 'instance': i['instance'],
                               'where': i['where'], 'detail': i['detail'], 'path': i.get('path'), 'root': self.root}, fh, indent=1)
                lines.append('VIOLATION property=%s replay=%s' % (self.pid, path))
                lines.append('  rule %s [%s] instance %s at %s' % (r.rid, r.text[:100], i['instance'], i['where']))
                lines.append('  %s' % i['detail'])
        # evidence
        samples = []
        for r in self.rules:
            for i in r.instances[:3]:
                samples.append({'rule': r.rid, 'instance': i['instance'], 'verdict': i['verdict'], 'where': i['where'], 'detail': i['detail'][:300]})
        ev = {
            'property_id': self.pid,
            'tier': self.tier,
            'seed': int(os.environ.get('VERIF_SEED', '0') or 0),
            'level': 'other',
            'coverage': {
                'explanation': self.explanation or 'static rules over the typed AST/CFG of the current tree',
                'evaluations': total,
                'distinct_nontrivial': len(nontriv),
                'rule': 'one evaluation = one rule instance (a site the rule template matches in the current source); '
                        'non-trivial = the verdict needed a CFG path query, a table comparison or a finite-domain evaluation, not only a syntactic match',
                'samples': samples[:40],
                'exhaustive': True,
                'rules': [{'id': r.rid, 'text': r.text, 'instances': r.count(), 'min_instances': r.min_instances,
                           'violated': sum(1 for i in r.instances if i['verdict'] == 'violated'),
                           'broken': r.broken_reason} for r in self.rules],
                'analysed': self.analysed,
                'known_findings_matched': [{'rule': r.rid, 'instance': i['instance']} for r, i, k in known_hits],
                'trusted_base': self.trusted,
                'root': self.root,
            },
            'assumptions': self.assumptions,
            'wall_s': round(wall, 3),
            'violations': len(violations),
        }
        if self.only is None and self.root == '/repo':
            os.makedirs(os.path.join(VERIF, 'evidence'), exist_ok=True)
            with open(os.path.join(VERIF, 'evidence', self.pid + '.json'), 'w') as fh:
                json.dump(ev, fh, indent=1, sort_keys=True)
                fh.write('\n')
        for ln in lines:
            print(ln)
        print('%s %s: %d rules, %d instances, %d violations, %d known findings, %d broken, %.1fs' % (
            self.pid, self.tier, len(self.rules), total, len(violations), len(known_hits), len(broken), wall))
        return code
