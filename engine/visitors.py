"""Visitor safety over the tree grammar (E3/TG): every child access a syntax-tree visitor makes is inside the node it visits.

For a visitor class (CRTP ASTVisitor<T>): the dispatch switch gives  node kind -> Vi method.  A method that receives the cursor of
the node it visits (parameter of type Cursor) may be entered for a set of node kinds: the dispatched kinds for Vi methods, the union
over the callers for helpers that are handed the caller's cursor.  Every child access  f(iter, k) / iter(k) / iter.Child(k)  is then
checked, for every kind and every arity the tree grammar allows under the guards that dominate the access:

    literal k          k < arity
    ChildrenCount()-c  arity >= c  (and the result >= 0)
    loop variable      the loop condition bounds it by ChildrenCount()
    parameter          the access is parametric: checked at each call site of the helper instead
"""
from .cfgq import dominating_guards, normalise_cond
from .facts import AnalysisBroken

R = 'ccl::rslang::'
INDEX_TYPES = ('ccl::rslang::Index', 'const ccl::rslang::Index', 'int', 'const int', 'short', 'const short', 'int16_t', 'const int16_t', 'Index', 'const Index')


def dispatch_map(db, cls):
    """{node kind: method name} for visitor class cls, from the instantiation of Cursor::DispatchVisit<cls>; also the asserted arities"""
    c = [f for f in db.functions if f.name.endswith('Cursor::DispatchVisit') and not f.rec.get('dependent')
         and f.rec['params'] and f.rec['params'][0]['type'].replace('&', '').strip() == cls]
    if len(c) != 1:
        raise AnalysisBroken('dispatch of %s: %d instantiations of Cursor::DispatchVisit' % (cls, len(c)))
    f = c[0]
    sw = [n for n in f.walk() if n['k'] == 'SwitchStmt']
    if len(sw) != 1:
        raise AnalysisBroken('DispatchVisit: switch not found')
    body = f.stmts[sw[0]['body']]
    out = {}
    asserts = {}
    cur = []
    for ci in body['c']:
        st = f.stmts[ci]
        labels = []
        while st['k'] in ('CaseStmt', 'DefaultStmt'):
            labels.append('default' if st['k'] == 'DefaultStmt' else (st.get('enumerator') or '').split('::')[-1])
            st = f.stmts[st['sub']]
        if labels:
            cur = labels
        for x in f.walk(st):
            if x['k'] == 'CXXMemberCallExpr' and (x.get('cs') or '').split('::')[-1].startswith('Vi') and (x.get('cs') or '').split('::')[-1][2:3].isupper():
                for l in cur:
                    out[l] = x['cs'].split('::')[-1]
            if x['k'] == 'BinaryOperator' and x.get('op') in ('==', '!=', '>=', '>', '<', '<=') and 'ChildrenCount' in x.get('txt', ''):
                kids = [f.strip(k) for k in f.children(x)]
                lit = [k for k in kids if k['k'] == 'IntegerLiteral']
                if lit:
                    for l in cur:
                        asserts.setdefault(l, []).append((x['op'], lit[0].get('cv', lit[0].get('val'))))
    return out, asserts, f


def _int(n):
    for k in ('cv', 'val', 'value'):
        if k in n:
            try:
                return int(n[k])
            except (TypeError, ValueError):
                pass
    try:
        return int(n.get('txt', ''))
    except ValueError:
        return None


class VisitorModel:
    def __init__(self, db, tg, cls, pre=None):
        self.db, self.tg, self.cls = db, tg, cls
        self.pre = pre      # a visitor that must have accepted the same tree before this one runs (NameCollector before ASTInterpreter)
        self.dispatch, self.asserts, self.dispatch_fn = dispatch_map(db, cls)
        self.methods = [f for f in db.methods_of(cls) if f.has_cfg()]
        self.by_mn = {f.mn: f for f in self.methods}
        self.kinds = {}     # method mn -> set of node kinds its cursor parameter may denote
        for kind, m in self.dispatch.items():
            if kind == 'default':
                continue
            for f in self.methods:
                if f.name.split('::')[-1] == m and self.cursor_param(f) is not None:
                    self.kinds.setdefault(f.mn, set()).add(kind)
        # the default label of the dispatch also covers every kind without a case of its own
        if 'default' in self.dispatch:
            for kind in tg.kinds():
                if kind not in self.dispatch and kind not in ('INTERRUPT', 'PUNC_PL', 'PUNC_PR', 'PUNC_CR'):
                    for f in self.methods:
                        if f.name.split('::')[-1] == self.dispatch['default'] and self.cursor_param(f) is not None:
                            self.kinds.setdefault(f.mn, set()).add(kind)
        self._propagate()

    @staticmethod
    def cursor_param(f):
        for i, p in enumerate(f.rec['params']):
            if 'Cursor' in p['type'] and '*' not in p['type']:
                return p
        return None

    def _is_own_cursor(self, f, n):
        """expression denotes the (unmoved) cursor parameter of f"""
        p = self.cursor_param(f)
        if p is None:
            return False
        n = f.strip(n)
        while n is not None and n['k'] in ('CXXConstructExpr',) and n.get('args'):
            n = f.strip(f.stmts[n['args'][0]])
        return n is not None and n['k'] == 'DeclRefExpr' and n.get('did') == p['did']

    def _propagate(self):
        changed = True
        while changed:
            changed = False
            for f in self.methods:
                src = self.kinds.get(f.mn)
                if not src:
                    continue
                for n in f.calls():
                    t = self.by_mn.get(n.get('mn') or '')
                    if t is None or t is f:
                        continue
                    tp = self.cursor_param(t)
                    if tp is None:
                        continue
                    idx = [i for i, p in enumerate(t.rec['params']) if p is tp][0]
                    args = n.get('args', [])
                    if idx < len(args) and self._is_own_cursor(f, f.stmts[args[idx]]):
                        # a helper with an index parameter is an access function (checked at the call site), its cursor still denotes the same node
                        dst = self.kinds.setdefault(t.mn, set())
                        if not src <= dst:
                            dst |= src
                            changed = True

    # ------------------------------------------------------------------ accesses
    def accesses(self, f):
        """[(call node, index expression node, description)] for accesses to a child of f's own cursor"""
        out = []
        for n in f.calls():
            args = [f.stmts[a] for a in n.get('args', [])]
            cs = n.get('cs') or ''
            last = cs.split('::')[-1]
            if cs.startswith(R + 'SyntaxTree::Cursor::') and last in ('Child', 'MoveToChild') and 'obj' in n and args and self._is_own_cursor(f, f.stmts[n['obj']]):
                out.append((n, args[0], 'iter.%s' % last))
                continue
            for i, a in enumerate(args[:-1]):
                if 'Cursor' in a.get('t', '') and self._is_own_cursor(f, a) and args[i + 1].get('t', '') in INDEX_TYPES:
                    out.append((n, args[i + 1], last if last != 'operator()' else 'iter(k)'))
                    break
        return out

    def moves(self, f):
        """calls that move f's own cursor (after which it no longer denotes the visited node)"""
        return [n for n in f.calls() if (n.get('cs') or '').startswith(R + 'SyntaxTree::Cursor::Move') and 'obj' in n and self._is_own_cursor(f, f.stmts[n['obj']])]

    # ------------------------------------------------------------------ guards
    def _count_expr(self, f, n):
        """n denotes iter.ChildrenCount() (directly or through a local initialised with it): True"""
        n = f.strip(n)
        if n is None:
            return False
        if n['k'] == 'CXXMemberCallExpr' and (n.get('cs') or '').endswith('Cursor::ChildrenCount') and 'obj' in n and self._is_own_cursor(f, f.stmts[n['obj']]):
            return True
        if n['k'] == 'DeclRefExpr' and n.get('dk') == 'local':
            for s0 in f.rec['stmts']:
                if s0['k'] == 'DeclStmt':
                    for d in s0.get('decls', []):
                        if d.get('did') == n.get('did') and 'init' in d and d.get('const'):
                            return self._count_expr(f, f.stmts[d['init']])
        if n['k'] in ('CXXStaticCastExpr', 'CStyleCastExpr', 'CXXFunctionalCastExpr') and n.get('c'):
            return self._count_expr(f, f.stmts[n['c'][0]])
        return False

    def _id_expr(self, f, n):
        n = f.strip(n)
        if n is None or n['k'] != 'MemberExpr' or n.get('member') != 'id':
            return False
        b = f.strip(f.children(n)[0]) if f.children(n) else None
        return b is not None and b['k'] == 'CXXOperatorCallExpr' and b.get('op') == '->' and self._is_own_cursor(f, f.stmts[b['args'][0]])

    def guard_holds(self, f, c, pol, kind, arity):
        """three-valued: True/False if the guard (c evaluates to pol) is decided by (kind, arity), None if it does not talk about them"""
        c = f.strip(c)
        while c is not None and c['k'] == 'BinaryOperator' and c.get('op') in ('||', '&&'):
            c = f.strip(f.children(c)[-1])
        c, pol = normalise_cond(f, c, pol)
        if c is not None and c['k'] == 'DeclRefExpr' and c.get('dk') == 'local':
            for s0 in f.rec['stmts']:
                if s0['k'] == 'DeclStmt':
                    for d in s0.get('decls', []):
                        if d.get('did') == c.get('did') and 'init' in d and d.get('const'):
                            return self.guard_holds(f, f.stmts[d['init']], pol, kind, arity)
            return None
        if c is None or c['k'] != 'BinaryOperator':
            return None
        op = c.get('op')
        a, b = f.children(c)
        val = None
        if op in ('==', '!=', '<', '>', '<=', '>='):
            if self._count_expr(f, a) and _int(f.strip(b)) is not None:
                x, y = arity, _int(f.strip(b))
            elif self._count_expr(f, b) and _int(f.strip(a)) is not None:
                x, y = _int(f.strip(a)), arity
            elif self._id_expr(f, a) and f.strip(b).get('dk') == 'enumerator':
                x, y = kind, f.strip(b).get('name')
                if op not in ('==', '!='):
                    return None
            elif self._id_expr(f, b) and f.strip(a).get('dk') == 'enumerator':
                x, y = f.strip(a).get('name'), kind
                if op not in ('==', '!='):
                    return None
            else:
                return None
            val = {'==': x == y, '!=': x != y, '<': x < y, '>': x > y, '<=': x <= y, '>=': x >= y}[op] if not isinstance(x, str) or op in ('==', '!=') else None
        if val is None:
            return None
        return val == pol

    def switch_kinds(self, f, pos_node):
        """if the access sits under `switch (iter->id)` case labels, the kinds those labels name (None if not under such a switch)"""
        n = pos_node
        for a in f.ancestors(n):
            if a['k'] == 'SwitchStmt' and self._id_expr(f, f.stmts[a['cond']]):
                body = f.stmts[a['body']]
                cur, hit = [], None
                labelled = set()
                for ci in body['c']:
                    st = f.stmts[ci]
                    labels = []
                    while st['k'] in ('CaseStmt', 'DefaultStmt'):
                        labels.append('default' if st['k'] == 'DefaultStmt' else (st.get('enumerator') or '').split('::')[-1])
                        st = f.stmts[st['sub']]
                    if labels:
                        cur = labels
                        labelled |= set(l for l in labels if l != 'default')
                    if any(x is n for x in f.walk(st)):
                        hit = list(cur)
                if hit is None:
                    return None
                return ('case', set(l for l in hit if l != 'default'), 'default' in hit, labelled)
        return None

    def feasible(self, f, node):
        """[(kind, arity)] under which the statement containing `node` can execute"""
        pos = f.position_of(node)
        kinds = set(self.kinds.get(f.mn, ()))
        sk = self.switch_kinds(f, node)
        if sk is not None:
            _, named, has_default, labelled = sk
            kinds = {k for k in kinds if k in named or (has_default and k not in labelled)}
        guards = dominating_guards(f, pos) if pos is not None else []
        out = []
        for k in sorted(kinds):
            ars = sorted(self.tg.arity.get(k, ()))
            if not ars:
                continue
            if self.tg.variable_arity(k):
                ars = ars + [max(ars) + 1, max(ars) + 2]
            for a in ars:
                ok = True
                if self.pre is not None and not self.pre.can_succeed(k, a):
                    continue
                for c, pol in guards:
                    if self.guard_holds(f, c, pol, k, a) is False:
                        ok = False
                        break
                if ok:
                    out.append((k, a))
        return out

    def can_succeed(self, kind, arity):
        """some return of the method dispatched for `kind` can yield true for a node with `arity` children"""
        m = self.dispatch.get(kind, self.dispatch.get('default'))
        fs = [f for f in self.methods if f.name.split('::')[-1] == m and self.cursor_param(f) is not None]
        if not fs:
            return True
        f = fs[0]
        for p, r in f.return_sites():
            if f.return_literal(r) == 'false':
                continue
            sk = self.switch_kinds(f, r)
            if sk is not None and not (kind in sk[1] or (sk[2] and kind not in sk[3])):
                continue
            ok = True
            for c, pol in dominating_guards(f, p):
                if self.guard_holds(f, c, pol, kind, arity) is False:
                    ok = False
                    break
            if ok and 'value' in r:
                # conjuncts of `return a && b && c`: each must be able to hold
                stack = [f.strip(f.stmts[r['value']])]
                while stack and ok:
                    e = stack.pop()
                    if e is not None and e['k'] == 'BinaryOperator' and e.get('op') == '&&':
                        stack += [f.strip(x) for x in f.children(e)]
                    elif e is not None and self.guard_holds(f, e, True, kind, arity) is False:
                        ok = False
            if ok:
                return True
        return False

    # ------------------------------------------------------------------ index classification
    def index_class(self, f, idx):
        """('lit', k) | ('count-', c) | ('loop', var) | ('param', name) | ('cond', [classes]) | ('unknown', text)"""
        n = f.strip(idx)
        if n is None:
            return ('unknown', '?')
        v = _int(n) if n['k'] == 'IntegerLiteral' else None
        if v is not None:
            return ('lit', v)
        if n['k'] in ('CXXStaticCastExpr', 'CStyleCastExpr', 'CXXFunctionalCastExpr') and n.get('c'):
            return self.index_class(f, f.stmts[n['c'][0]])
        if n['k'] == 'BinaryOperator' and n.get('op') == '-':
            a, b = f.children(n)
            if self._count_expr(f, a) and _int(f.strip(b)) is not None:
                return ('count-', _int(f.strip(b)))
        if n['k'] == 'ConditionalOperator':
            return ('cond', n, self.index_class(f, f.stmts[n['then']]), self.index_class(f, f.stmts[n['else']]))
        if n['k'] == 'DeclRefExpr' and n.get('dk') == 'param':
            return ('param', n.get('name'))
        if n['k'] == 'DeclRefExpr' and n.get('dk') == 'local':
            # loop variable bounded by the child count?
            for a in f.ancestors(idx):
                if a['k'] == 'ForStmt' and 'cond' in a:
                    c = f.strip(f.stmts[a['cond']])
                    if c['k'] == 'BinaryOperator' and c.get('op') == '<':
                        l, r = f.children(c)
                        ls = f.strip(l)
                        lhs_is_var = ls.get('did') == n.get('did') or (ls['k'] == 'BinaryOperator' and ls.get('op') == '+' and f.strip(f.children(ls)[0]).get('did') == n.get('did'))
                        rs = f.strip(r)
                        r_is_count = self._count_expr(f, r) or (rs['k'] == 'BinaryOperator' and rs.get('op') == '-' and self._count_expr(f, f.children(rs)[0])
                                                                and (_int(f.strip(f.children(rs)[1])) or 0) >= 0)
                        if lhs_is_var and r_is_count:
                            return ('loop', n.get('name'))
            # a counter read after `for (; var < ChildrenCount() - c; ++var)`: it stopped at max(start, ChildrenCount() - c)
            for a in f.walk():
                if a['k'] == 'ForStmt' and 'cond' in a and not any(x is idx for x in f.walk(a)):
                    c = f.strip(f.stmts[a['cond']])
                    if c['k'] == 'BinaryOperator' and c.get('op') == '<' and f.strip(f.children(c)[0]).get('did') == n.get('did'):
                        rs = f.strip(f.children(c)[1])
                        if rs['k'] == 'BinaryOperator' and rs.get('op') == '-' and self._count_expr(f, f.children(rs)[0]) and _int(f.strip(f.children(rs)[1])) is not None:
                            writes = [x for x in f.walk() if x['k'] in ('UnaryOperator', 'BinaryOperator', 'CompoundAssignOperator') and x.get('op') in ('++', '--', '=', '+=', '-=')
                                      and f.children(x) and f.strip(f.children(x)[0]).get('did') == n.get('did')]
                            init0 = any(d.get('did') == n.get('did') and 'init' in d and _int(f.strip(f.stmts[d['init']])) == 0
                                        for s0 in f.rec['stmts'] if s0['k'] == 'DeclStmt' for d in s0.get('decls', []))
                            if init0 and all(x.get('op') == '++' and any(y is x for y in f.walk(a)) for x in writes):
                                return ('count-', _int(f.strip(f.children(rs)[1])))
            # constant local
            for s0 in f.rec['stmts']:
                if s0['k'] == 'DeclStmt':
                    for d in s0.get('decls', []):
                        if d.get('did') == n.get('did') and 'init' in d and d.get('const'):
                            return self.index_class(f, f.stmts[d['init']])
        return ('unknown', n.get('txt', '')[:40])

    def check_access(self, f, node, idx):
        """-> list of (kind, arity, why) counterexamples; ('param', name) accesses return 'param'"""
        cls = self.index_class(f, idx)
        if cls[0] == 'param':
            return 'param', cls
        if cls[0] == 'loop':
            return [], cls
        bad = []
        for kind, arity in self.feasible(f, node):
            if cls[0] == 'cond':
                g = self.guard_holds(f, f.stmts[cls[1]['cond']], True, kind, arity)
                alts = [cls[2]] if g is True else [cls[3]] if g is False else [cls[2], cls[3]]
            else:
                alts = [cls]
            for c in alts:
                if c[0] == 'lit':
                    if not (0 <= c[1] < arity):
                        bad.append((kind, arity, 'child %d of a %s node with %d children' % (c[1], kind, arity)))
                elif c[0] == 'count-':
                    if not (0 <= arity - c[1] < arity):
                        bad.append((kind, arity, 'child ChildrenCount()-%d of a %s node with %d children' % (c[1], kind, arity)))
                elif c[0] == 'loop':
                    pass
                else:
                    bad.append((kind, arity, 'index `%s` is not bounded by the child count' % c[1]))
        return bad, cls
