"""E2 — fact database over the output of tools/cclfacts (typed AST + CFG of every repo function).

Everything here is read-only analysis of facts extracted from the *current* source tree under
`root` (default /repo).  The extractor is re-run whenever any file it can see changed (content hash).
"""
import hashlib
import json
import os
import subprocess
import sys
import time
from concurrent.futures import ThreadPoolExecutor

VERIF = os.path.dirname(os.path.dirname(os.path.abspath(__file__)))
BUILD = os.path.join(VERIF, 'build')
TOOL = os.path.join(BUILD, 'cclfacts')

UNITS = {
    'CCL': 'ccl/core/unity/CCL.cpp',
    'CGraph': 'ccl/cclGraph/src/CGraph.cpp',
    'RSlang': 'ccl/rslang/unity/RSlang.cpp',
    'RSlang2': 'ccl/rslang/unity/RSlang2.cpp',
    'cclLang': 'ccl/cclLang/unity/cclLang.cpp',
    'pyconcept': 'pyconcept/src/pyconcept.cpp',
}

INCLUDE_DIRS = [
    'ccl/cclCommons/include', 'ccl/cclGraph/include', 'ccl/cclLang/include', 'ccl/rslang/include',
    'ccl/core/include', 'ccl/core/import/include', 'ccl/core/header', 'ccl/cclGraph/header',
    'ccl/cclGraph/import/include', 'ccl/rslang/header', 'ccl/rslang/import/include',
    'ccl/rslang/import/reflex/include', 'ccl/cclLang/header', 'ccl/cclLang/import/include',
    'pyconcept/include',
]


class AnalysisBroken(Exception):
    """The analysis cannot give a verdict (tool failure, vanished anchor, unknown fragment)."""


def _resource_dir():
    return subprocess.run(['clang++', '-print-resource-dir'], capture_output=True, text=True).stdout.strip()


def source_files(root):
    out = []
    for top in ('ccl', 'pyconcept'):
        for dp, dn, fn in os.walk(os.path.join(root, top)):
            dn[:] = [d for d in dn if d not in ('test', 'tests', '.git', '_build', 'build')]
            for f in fn:
                if f.endswith(('.cpp', '.h', '.hpp', '.y', '.l', '.hh', '.cc')):
                    out.append(os.path.join(dp, f))
    out.sort()
    return out


def tree_hash(root):
    h = hashlib.sha256()
    for p in source_files(root):
        h.update(p[len(root):].encode())
        with open(p, 'rb') as fh:
            h.update(hashlib.sha256(fh.read()).digest())
    with open(TOOL, 'rb') as fh:
        h.update(hashlib.sha256(fh.read()).digest())
    return h.hexdigest()


def ensure_tool():
    src = os.path.join(VERIF, 'tools', 'cclfacts', 'cclfacts.cc')
    if os.path.exists(TOOL) and os.path.getmtime(TOOL) >= os.path.getmtime(src):
        return
    os.makedirs(BUILD, exist_ok=True)
    flags = subprocess.run(['llvm-config-14', '--cxxflags'], capture_output=True, text=True).stdout.split()
    cmd = ['clang++'] + flags + ['-std=c++17', '-fno-rtti', '-O1', src, '-o', TOOL,
                                  '/usr/lib/llvm-14/lib/libclang-cpp.so.14', '/usr/lib/llvm-14/lib/libLLVM-14.so']
    r = subprocess.run(cmd, capture_output=True, text=True)
    if r.returncode != 0:
        raise AnalysisBroken('cannot build cclfacts: ' + r.stderr[-2000:])


def _extract(root, unit, out):
    flags = ['-std=c++20', '-UNDEBUG', '-w', '-resource-dir', _resource_dir(),
             '-I' + os.path.join(VERIF, 'tools', 'stubs')]
    flags += ['-I' + os.path.join(root, d) for d in INCLUDE_DIRS]
    cmd = [TOOL, '--root', root, '--out', out, os.path.join(root, UNITS[unit]), '--'] + flags
    r = subprocess.run(cmd, capture_output=True, text=True)
    return unit, r.returncode, r.stderr[-3000:]


def extract_all(root, units=None):
    """Run the extractor on all units (parallel); returns dir with <unit>.json; cached by tree hash."""
    ensure_tool()
    units = list(units or UNITS)
    key = tree_hash(root)
    cdir = os.path.join(BUILD, 'facts', key[:24])
    os.makedirs(cdir, exist_ok=True)
    todo = [u for u in units if not os.path.exists(os.path.join(cdir, u + '.ok'))]
    if todo:
        with ThreadPoolExecutor(max_workers=len(todo)) as ex:
            # each process extracts into its own temporary file and publishes it atomically: checks started concurrently on a new tree
            # may duplicate the work but never read or write a half-written facts file
            res = list(ex.map(lambda u: _extract(root, u, os.path.join(cdir, '%s.json.%d.tmp' % (u, os.getpid()))), todo))
        for unit, rc, err in res:
            tmp = os.path.join(cdir, '%s.json.%d.tmp' % (unit, os.getpid()))
            if rc != 0:
                if os.path.exists(tmp):
                    os.remove(tmp)
                raise AnalysisBroken('cclfacts failed on %s (does the tree compile?): %s' % (unit, err))
            os.replace(tmp, os.path.join(cdir, unit + '.json'))
            open(os.path.join(cdir, unit + '.ok'), 'w').close()
        _prune_cache(os.path.join(BUILD, 'facts'), keep=cdir)
    return cdir, key


def _prune_cache(base, keep, max_age_s=3 * 3600, maxdirs=40):
    """Remove fact caches that are old; never one that a concurrent run may be using (recent ones are kept)."""
    import shutil
    now = time.time()
    ds = [os.path.join(base, d) for d in os.listdir(base)]
    ds = [d for d in ds if os.path.isdir(d) and d != keep]
    ds.sort(key=os.path.getmtime)
    for d in ds:
        if now - os.path.getmtime(d) > max_age_s:
            shutil.rmtree(d, ignore_errors=True)
    ds = [d for d in ds if os.path.isdir(d)]
    while len(ds) > maxdirs:
        shutil.rmtree(ds.pop(0), ignore_errors=True)


# ----------------------------------------------------------------------------------------------

def strip_targs(name):
    """std::optional<std::variant<A, B>>::value -> std::optional::value"""
    if '<' not in name:
        return name
    out = []
    depth = 0
    i = 0
    while i < len(name):
        ch = name[i]
        if ch == '<' and not name.startswith('operator<', max(0, i - 8), i + 1):
            depth += 1
        elif ch == '>' and depth > 0:
            depth -= 1
        elif depth == 0:
            out.append(ch)
        i += 1
    return ''.join(out)


class Fn:
    """One function definition: statement table, CFG and helpers."""

    def __init__(self, rec, unit):
        self.rec = rec
        self.unit = unit
        self.name = rec['name']
        self.sname = strip_targs(rec['name'])
        self.mn = rec.get('mn', '')
        self.file = rec.get('file', '')
        self.line = rec.get('line', 0)
        self.cls = rec.get('cls', '')
        self.stmts = {s['id']: s for s in rec['stmts']}
        for s in rec['stmts']:
            c = s.get('callee')
            if c is not None:
                s['cs'] = strip_targs(c)
        self.body = rec.get('body', -1)
        self._parent = None
        self._graph = None

    # ---- tree helpers
    def node(self, i):
        return self.stmts.get(i)

    def children(self, n):
        return [self.stmts[c] for c in n.get('c', []) if c in self.stmts]

    def walk(self, n=None):
        """Pre-order walk of the subtree rooted at n (node or id); whole function when n is None."""
        if n is None:
            roots = [self.stmts[self.body]] if self.body in self.stmts else []
            seen = set()
            for r in roots:
                for x in self._walk(r):
                    seen.add(x['id'])
                    yield x
            for s in self.rec['stmts']:
                if s['id'] not in seen:
                    # constructor initialisers and synthesised statements
                    for x in self._walk(s):
                        if x['id'] not in seen:
                            seen.add(x['id'])
                            yield x
            return
        if isinstance(n, int):
            n = self.stmts[n]
        yield from self._walk(n)

    def _walk(self, n):
        stack = [n]
        while stack:
            x = stack.pop()
            yield x
            for c in reversed(x.get('c', [])):
                if c in self.stmts:
                    stack.append(self.stmts[c])

    @property
    def parent(self):
        if self._parent is None:
            p = {}
            for s in self.rec['stmts']:
                for c in s.get('c', []):
                    if c >= 0 and c not in p:
                        p[c] = s['id']
            self._parent = p
        return self._parent

    def ancestors(self, n):
        i = n['id'] if isinstance(n, dict) else n
        while i in self.parent:
            i = self.parent[i]
            yield self.stmts[i]

    def strip(self, n):
        """Skip wrappers that do not change the value: parens, implicit casts, temporaries, cleanups."""
        while n is not None and n['k'] in ('ImplicitCastExpr', 'ParenExpr', 'ExprWithCleanups', 'MaterializeTemporaryExpr',
                                            'CXXBindTemporaryExpr', 'ConstantExpr', 'CXXFunctionalCastExpr',
                                            'CXXStaticCastExpr', 'CStyleCastExpr', 'SubstNonTypeTemplateParmExpr',
                                            'FullExpr'):
            cs = self.children(n)
            if not cs:
                break
            n = cs[0]
        if n is not None and n['k'] == 'CXXConstructExpr' and (n.get('copyctor') or n.get('movector')) and len(n.get('args', [])) == 1:
            return self.strip(self.stmts[n['args'][0]])
        return n

    def calls(self, n=None):
        for x in self.walk(n):
            if x['k'] in ('CallExpr', 'CXXMemberCallExpr', 'CXXOperatorCallExpr', 'CXXConstructExpr', 'CXXTemporaryObjectExpr'):
                yield x

    def loc(self, n):
        return '%s:%s' % (n.get('f') or self.file, n.get('line', self.line))

    def root_of(self, n):
        """Root object of an access path: ('this',), ('field', name), ('param', name), ('local', name), ('call', callee) ..."""
        n = self.strip(n)
        path = []
        while n is not None:
            k = n['k']
            if k == 'MemberExpr':
                path.append(n.get('member'))
                cs = self.children(n)
                if not cs:
                    return ('this-field', tuple(reversed(path)))
                n = self.strip(cs[0])
            elif k == 'CXXThisExpr':
                return ('this', tuple(reversed(path)))
            elif k == 'DeclRefExpr':
                al = self.ref_aliases().get(n.get('did')) if n.get('dk') in ('local', 'binding') else None
                if al is not None and len(path) < 40:
                    kind, target = al
                    if kind == 'elem':
                        path.append('elem')
                    n = self.strip(target)
                    continue
                return (n.get('dk', 'other'), n.get('name'), tuple(reversed(path)))
            elif k in ('CXXMemberCallExpr',):
                path.append('()' + (n.get('callee') or ''))
                if 'obj' in n:
                    n = self.strip(self.stmts[n['obj']])
                else:
                    return ('call', n.get('callee'), tuple(reversed(path)))
            elif k == 'CXXOperatorCallExpr':
                path.append('op' + n.get('op', ''))
                args = n.get('args', [])
                if args:
                    n = self.strip(self.stmts[args[0]])
                else:
                    return ('call', n.get('callee'), tuple(reversed(path)))
            elif k == 'UnaryOperator':
                path.append('u' + n.get('op', ''))
                n = self.strip(self.children(n)[0])
            elif k == 'ArraySubscriptExpr':
                path.append('[]')
                n = self.strip(self.children(n)[0])
            elif k == 'CallExpr':
                return ('call', n.get('callee'), tuple(reversed(path)))
            else:
                return (k, None, tuple(reversed(path)))
        return ('?',)

    def ref_aliases(self):
        """did -> ('ref', init node) for local reference variables, ('elem', range node) for by-reference range-for variables"""
        if getattr(self, '_refal', None) is None:
            out = {}
            loopvars = {}
            for s in self.rec['stmts']:
                if s['k'] == 'CXXForRangeStmt' and 'loopvar' in s and 'range' in s:
                    lv = self.stmts.get(s['loopvar'])
                    if lv and lv.get('decls'):
                        loopvars[lv['decls'][0]['did']] = self.stmts[s['range']]
            for s in self.rec['stmts']:
                if s['k'] == 'DeclStmt':
                    for d in s.get('decls', []):
                        if not d.get('ref'):
                            continue
                        al = None
                        if d['did'] in loopvars:
                            al = ('elem', loopvars[d['did']])
                        elif 'init' in d and d['init'] in self.stmts:
                            al = ('ref', self.stmts[d['init']])
                        if al is not None:
                            out[d['did']] = al
                            for b in d.get('bindings', []):
                                out[b['did']] = al      # structured binding of a reference: part of the same object
            self._refal = out
        return self._refal

    # ---- CFG: fine-grained graph whose nodes are (block, index) positions
    @property
    def blocks(self):
        return {b['id']: b for b in self.rec.get('cfg', {}).get('blocks', [])}

    def has_cfg(self):
        return bool(self.rec.get('cfg', {}).get('blocks'))

    def graph(self):
        """Returns (nodes, succ, entry, exit). Node = (blockid, idx); idx == len(el) is the block's end point."""
        if self._graph is not None:
            return self._graph
        blocks = self.blocks
        succ = {}
        for bid, b in blocks.items():
            el = b['el']
            for i in range(len(el)):
                succ[(bid, i)] = [(bid, i + 1)]
            succ[(bid, len(el))] = [(s, 0) for s in b['succ'] if s is not None]
        cfg = self.rec['cfg']
        self._graph = (succ, (cfg['entry'], 0), (cfg['exit'], 0))
        return self._graph

    def element_positions(self):
        """stmt id -> (block, idx) for statements that are CFG elements."""
        pos = {}
        for bid, b in self.blocks.items():
            for i, e in enumerate(b['el']):
                if isinstance(e, int):
                    pos.setdefault(e, (bid, i))
        # jump statements are block terminators, not elements: they sit at the end of their block
        for bid, b in self.blocks.items():
            t = b.get('term')
            if isinstance(t, int) and t not in pos and self.stmts.get(t, {}).get('k') in ('GotoStmt', 'BreakStmt', 'ContinueStmt'):
                pos[t] = (bid, len(b['el']))
        return pos

    def position_of(self, n):
        """CFG position at which node n is evaluated (its own element, else nearest ancestor that is one)."""
        pos = self.element_positions()
        i = n['id'] if isinstance(n, dict) else n
        while True:
            if i in pos:
                return pos[i]
            if i not in self.parent:
                return None
            i = self.parent[i]

    def reach(self, start, blocked=(), forward=True):
        """Positions reachable from start without entering a blocked position."""
        succ, entry, exit_ = self.graph()
        blocked = set(blocked)
        seen = set()
        stack = [start]
        while stack:
            p = stack.pop()
            if p in seen or p in blocked:
                continue
            seen.add(p)
            stack.extend(succ.get(p, []))
        return seen

    def return_sites(self):
        """List of (position, ReturnStmt node or None for fall-off/implicit)."""
        out = []
        for bid, b in self.blocks.items():
            for i, e in enumerate(b['el']):
                if isinstance(e, int) and self.stmts.get(e, {}).get('k') == 'ReturnStmt':
                    out.append(((bid, i), self.stmts[e]))
        return out

    def exit_kinds(self):
        """Classify predecessors of the exit block: 'return' (with node), 'throw', 'falloff'."""
        cfg = self.rec['cfg']
        exit_id = cfg['exit']
        out = []
        for bid, b in self.blocks.items():
            if exit_id in [s for s in b['succ'] if s is not None]:
                kind, node = 'falloff', None
                for e in reversed(b['el']):
                    if isinstance(e, int):
                        k = self.stmts.get(e, {}).get('k')
                        if k == 'ReturnStmt':
                            kind, node = 'return', self.stmts[e]
                            break
                        if k == 'CXXThrowExpr':
                            kind, node = 'throw', self.stmts[e]
                            break
                if b.get('noreturn'):
                    kind = 'noreturn'
                out.append((bid, kind, node))
        return out

    def return_literal(self, ret):
        """'true'/'false'/'nullptr'/'nullopt'/'empty' when the returned value is such a constant, else None."""
        if ret is None or 'value' not in ret:
            return None
        v = self.strip(self.stmts[ret['value']])
        seen = 0
        while v is not None and seen < 6:
            seen += 1
            k = v['k']
            if k == 'CXXBoolLiteralExpr':
                return 'true' if v.get('bv') else 'false'
            if k == 'CXXNullPtrLiteralExpr':
                return 'nullptr'
            if k == 'DeclRefExpr' and v.get('name') == 'nullopt':
                return 'nullopt'
            if k in ('CXXConstructExpr', 'CXXTemporaryObjectExpr', 'InitListExpr', 'CXXScalarValueInitExpr'):
                args = v.get('args', v.get('c', []))
                if not args:
                    return 'empty'
                if len(args) == 1:
                    v = self.strip(self.stmts[args[0]])
                    continue
                return None
            return None
        return None


class DB:
    def __init__(self, root='/repo', units=None):
        t0 = time.time()
        self.root = root
        cdir, key = extract_all(root, units)
        self.key = key
        self.units = {}
        self.functions = []
        self.by_mn = {}
        self.by_name = {}
        self.records = {}
        self.enums = {}
        self.statics = []
        seen = set()
        for u in (units or UNITS):
            with open(os.path.join(cdir, u + '.json')) as fh:
                d = json.load(fh)
            if d.get('errors'):
                raise AnalysisBroken('unit %s has compile errors' % u)
            self.units[u] = {'functions': len(d['functions'])}
            for rec in d['functions']:
                key2 = (rec['name'], rec.get('mn', ''), rec.get('file'), rec.get('line'))
                if key2 in seen:
                    continue
                seen.add(key2)
                f = Fn(rec, u)
                self.functions.append(f)
                if f.mn:
                    self.by_mn.setdefault(f.mn, f)
                self.by_name.setdefault(f.name, []).append(f)
                if f.sname != f.name:
                    self.by_name.setdefault(f.sname, []).append(f)
            for r in d['records']:
                self.records.setdefault(r['key'], r)
            for e in d['enums']:
                self.enums.setdefault(e['name'], e)
            sk = set()
            for s in d['statics']:
                k3 = (s['name'], s.get('owner'), s['file'], s['line'])
                if k3 not in sk and k3 not in {(x['name'], x.get('owner'), x['file'], x['line']) for x in self.statics}:
                    self.statics.append(s)
                    sk.add(k3)
        self.load_s = time.time() - t0
        self._overriders = None

    # ---- lookup
    def fn(self, name, required=True, pick=None):
        """Unique non-dependent function with this qualified name."""
        c = [f for f in self.by_name.get(name, []) if not f.rec.get('dependent')]
        if pick:
            c = [f for f in c if pick(f)]
        if not c:
            if required:
                raise AnalysisBroken('anchor vanished: function %s not found' % name)
            return None
        return c[0]

    def fns(self, name):
        return [f for f in self.by_name.get(name, [])]

    def methods_of(self, cls, include_dependent=False):
        return [f for f in self.functions if f.cls == cls and (include_dependent or not f.rec.get('dependent')) and not f.rec.get('lambda')]

    def record(self, name, required=True):
        r = self.records.get(name)
        if r is None:
            for k, v in self.records.items():
                if v['name'] == name:
                    return v
            if required:
                raise AnalysisBroken('anchor vanished: class %s not found' % name)
        return r

    def enum(self, name):
        e = self.enums.get(name)
        if e is None:
            raise AnalysisBroken('anchor vanished: enum %s not found' % name)
        return e

    def lambdas_in(self, fn):
        pre = fn.name + '::lambda@'
        return [f for f in self.functions if f.name.startswith(pre)]

    # ---- call graph
    def overriders(self, mn):
        if self._overriders is None:
            ov = {}
            for r in self.records.values():
                for m in r['methods']:
                    for o in m.get('overrides', []):
                        ov.setdefault(o, set()).add(m['mn'])
            # transitive
            changed = True
            while changed:
                changed = False
                for k, v in list(ov.items()):
                    for x in list(v):
                        for y in ov.get(x, ()):  # overrider of overrider
                            if y not in v:
                                v.add(y)
                                changed = True
            self._overriders = ov
        return self._overriders.get(mn, set())

    def callees(self, fn, call):
        """Resolved target functions (Fn objects in repo) of a call node."""
        out = []
        mn = call.get('mn')
        if mn:
            t = self.by_mn.get(mn)
            if t is not None:
                out.append(t)
            if call.get('virtual'):
                for o in self.overriders(mn):
                    t = self.by_mn.get(o)
                    if t is not None:
                        out.append(t)
        return out


def text_of(fn, n, limit=120):
    t = n.get('txt', '')
    return t[:limit]
