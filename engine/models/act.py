"""E3/ACT — the tree the parser builds, as a model: LR automaton (tables) composed with the semantic actions.

The actions (`switch (yyn)` in RSParserImpl::parse) and the helper functions of RSParser.cpp are interpreted abstractly
over symbolic tokens (token i occupies the code-point range [10*i, 10*i+w_i)); no input text, no lexer, no compiled code.
The result is the SyntaxTree the real parser would hand out for that token-kind sequence: node ids, children, ranges."""
from ..evalmini import Interp, Obj, OutOfFragment, NOT_HANDLED, Goto, UNKNOWN
from ..facts import AnalysisBroken
from .lr import LR, Abort


class Tree:
    __slots__ = ('id', 'children', 'start', 'finish', 'data', 'tok')

    def __init__(self, id_, children, start, finish, data=None, tok=None):
        self.id = id_
        self.children = children
        self.start = start
        self.finish = finish
        self.data = data
        self.tok = tok

    def shape(self, names=None):
        n = names.get(self.id, self.id) if names else self.id
        if self.data is not None:
            n = '%s:%s' % (n, self.data)
        if not self.children:
            return n
        return (n,) + tuple(c.shape(names) for c in self.children)

    def walk(self):
        yield self
        for c in self.children:
            yield from c.walk()


class AstModel:
    def __init__(self, db, lr=None):
        self.db = db
        self.lr = lr or LR(db)
        self.lr.load_actions()
        self.tokid = {e['name']: e['val'] for e in db.enum('ccl::rslang::TokenID')['enumerators']}
        self.tokname = {v: k for k, v in self.tokid.items()}
        self.errors = []

    # ------------------------------------------------------------------
    def _on_call(self, it, fn, n, env):
        cs = n.get('cs') or ''
        S = fn.stmts
        if cs in ('std::make_shared', 'std::make_unique'):
            args = [it.eval(fn, S[a], env) for a in n.get('args', [])]
            targ = (n.get('targs') or [''])[0]
            if 'SyntaxTree' in targ and 'Node' in targ or targ.endswith('SyntaxTree::Node'):
                return Obj(token=args[0], children=[], parent=None, __kind__='astnode')
            if targ.endswith('SyntaxTree'):
                return Obj(root=args[0], __kind__='tree')
            if 'Node' in targ:
                if len(args) >= 2:
                    tok = Obj(id=args[0], pos=Obj(args[1]) if isinstance(args[1], Obj) else args[1], data=args[2] if len(args) > 2 else None)
                else:
                    tok = args[0]
                return Obj(token=tok, children=[], __kind__='node')
            raise OutOfFragment('make_shared<%s>' % targ)
        if cs.startswith('ccl::rslang::TokenData::') and 'obj' in n and cs.split('::')[-1] in ('IsTuple', 'ToTuple', 'IsInt', 'IsText', 'HasValue'):
            o = it.eval(fn, S[n['obj']], env)               # token data is carried as a plain value: None, an int, a text, a list of indices
            while isinstance(o, tuple) and len(o) == 2 and o[0] == 'ptr':
                o = o[1]
            last = cs.split('::')[-1]
            if isinstance(o, Obj) and o.get('__kind__') == 'tokendata' and 'indices' in o:
                o = o['indices']
            if isinstance(o, Obj):
                return NOT_HANDLED
            if last == 'IsTuple':
                return isinstance(o, (list, tuple))
            if last == 'ToTuple':
                return list(o) if isinstance(o, (list, tuple)) else []
            if last == 'IsInt':
                return isinstance(o, int) and not isinstance(o, bool)
            if last == 'IsText':
                return isinstance(o, (bytes, bytearray, str))
            return o is not None
        if cs.endswith('ParserState::OnError'):
            args = [it.eval(fn, S[a], env) for a in n.get('args', [])]
            self.errors.append(args[0] if args else None)
            return None
        if n['k'] == 'CXXOperatorCallExpr' and n.get('op') == '[]' and n.get('args'):
            o = it.eval(fn, S[n['args'][0]], env)
            if isinstance(o, Obj) and o.get('__kind__') == 'stack':
                i = it.eval(fn, S[n['args'][1]], env)
                return o['items'][i]
        if cs == 'ccl::rslang::SyntaxTree::SyntaxTree' or (n['k'] in ('CXXConstructExpr', 'CXXTemporaryObjectExpr') and (n.get('cls') or '') == 'ccl::rslang::SyntaxTree'):
            args = [it.eval(fn, S[a], env) for a in n.get('args', [])]
            return Obj(root=args[0] if args else None, __kind__='tree')
        if cs == 'ccl::meta::UniqueCPPtr::operator=' or cs.startswith('ccl::meta::UniqueCPPtr'):
            if n['k'] == 'CXXOperatorCallExpr' and n.get('op') == '=':
                v = it.eval(fn, S[n['args'][1]], env)
                it.assign(fn, S[n['args'][0]], v, env)
                return v
            if n['k'] in ('CXXConstructExpr', 'CXXTemporaryObjectExpr'):
                args = [it.eval(fn, S[a], env) for a in n.get('args', [])]
                return args[0] if args else None
        return NOT_HANDLED

    def assigning_rules(self):
        """rules whose action assigns $$ (yylhs.value)"""
        if getattr(self, '_assigning', None) is None:
            f = self.lr.actions_fn
            out = set()
            for r, stmts in self.lr.actions.items():
                for st in stmts:
                    for n in f.walk(st):
                        if n['k'] in ('BinaryOperator', 'CXXOperatorCallExpr') and n.get('op') == '=':
                            kids = f.children(n) if n['k'] == 'BinaryOperator' else [f.stmts[a] for a in n['args']]
                            l = f.strip(kids[0])
                            if l['k'] == 'MemberExpr' and l.get('member') == 'value' and f.strip(f.children(l)[0]).get('name') == 'yylhs':
                                out.add(r)
            self._assigning = out
        return self._assigning

    def error_rules(self):
        """rules whose action only reports an error and aborts (error productions)"""
        f = self.lr.actions_fn
        out = set()
        for r, stmts in self.lr.actions.items():
            calls = [n.get('cs') for st in stmts for n in f.calls(st)]
            gotos = [n for st in stmts for n in f.walk(st) if n['k'] == 'GotoStmt' and n.get('label') == 'yyabortlab']
            conds = [n for st in stmts for n in f.walk(st) if n['k'] == 'IfStmt']
            if gotos and not conds and calls and all((c or '').endswith('ParserState::OnError') or (c or '').startswith('std::') for c in calls):
                out.add(r)
        return out

    def _interp(self):
        return Interp(self.db, on_call=self._on_call, max_steps=400000)

    # ------------------------------------------------------------------
    def build(self, tokens):
        """tokens: list of (TokenID name, data or None, width).  Returns (tree or None, info)."""
        lr = self.lr
        kinds = []
        for name, data, width in tokens:
            kinds.append(lr.terminal_of_token(self.tokid[name]))
        self.errors = []
        state = Obj(parsedTree=None, countCriticalErrors=0, currentPosition=0, __kind__='state')
        f = lr.actions_fn

        def on_shift(i):
            if i >= len(tokens):
                return None
            name, data, width = tokens[i]
            tok = Obj(id=self.tokid[name], pos=Obj(start=10 * i, finish=10 * i + width), data=data)
            return Obj(token=tok, children=[], __kind__='node')

        def on_reduce(r, vals, span):
            n = len(vals)
            default = vals[0] if n else None
            acts = lr.actions.get(r)
            if not acts:
                return default
            lhs = Obj(value=default)
            stack = Obj(items=[Obj(value=v) for v in reversed(vals)], __kind__='stack')
            env = {'yylhs': lhs, 'yystack_': stack, 'state': state, 'this': Obj(yystack_=stack, state=state)}
            it = self._interp()
            try:
                for st in acts:
                    if st['k'] == 'BreakStmt':
                        break
                    it.exec(f, st, env)
            except Goto as g:
                if g.label == 'yyabortlab':
                    raise Abort(('YYABORT', r, list(self.errors)))
                raise OutOfFragment('goto %s in action %d' % (g.label, r))
            except Exception as e:
                if e.__class__.__name__ == '_Break':
                    pass
                else:
                    raise
            res = lhs['value']
            if isinstance(res, Obj) and span is not None and 'token' in res and r in self.assigning_rules():
                want = (10 * span[0], 10 * span[1] + tokens[span[1]][2])
                pos = res['token']['pos']
                got = (pos['start'], pos['finish'])
                if got != want:
                    self.range_faults.append((r, span, got, want))
            return res

        self.range_faults = []
        ok, v = lr.parse(kinds, on_reduce=on_reduce, on_shift=on_shift)
        if not ok:
            return None, v
        tree = state.get('parsedTree')
        if tree is None:
            return None, ('no tree', v)
        root = tree['root'] if isinstance(tree, Obj) and 'root' in tree else tree
        return self._to_tree(root), None

    def _to_tree(self, n):
        tok = n['token']
        pos = tok['pos']
        return Tree(self.tokname.get(tok['id'], tok['id']), [self._to_tree(c) for c in n['children']], pos['start'], pos['finish'], tok.get('data') if tok.get('data') is not UNKNOWN else None)
