"""E4 harness for ccl::object::StructuredData: the library's own algorithms (comparison, set storage order, lazy product / power-set
iterators, set operations, factories) are interpreted from their typed AST; only the C++ object plumbing that carries no decision of the
library is supplied here:

  shared_ptr<Impl>            identity of a python object (use_count() answered as `shared`, so every ModifyB takes the copy branch:
                              copy-on-write is decided structurally by C15 r1, not here)
  Structured<E,T,B> variant   tag + payload
  unique_ptr<SetImpl>         the pointee; virtual calls dispatched on the dynamic class through the record's base chain
  std::set<StructuredData>    a list kept ordered by the *interpreted* StructuredData::operator<
  PolyFCIterator<SD>          a cell holding either a std::set position or an interpreted lazy iterator object; copies are deep

Nothing in this file knows what the right answer of a comparison or a set operation is.
"""
from engine.evalmini import Interp, Obj, OutOfFragment, NOT_HANDLED, UNKNOWN, SignedOverflow

O = 'ccl::object::'
SD = O + 'StructuredData'
SET = O + 'SDSet'
IMPL = SD + '::Impl'
POLY = 'ccl::meta::PolyFCIterator<ccl::object::StructuredData>::'
STRUCT = 'ccl::rslang::Structured<ccl::object::SDBasicElement, ccl::object::SDTuple, ccl::object::SDSet>::'
SETIMPL = O + 'SDSet::SetImpl::'
LAZY = (O + 'SDPowerSet', O + 'SDDecartian')


class OrdSet(list):
    """std::set<StructuredData>"""
    pass


class Crash(OutOfFragment):
    """the interpreted code reaches undefined behaviour (end-iterator dereference, wrong variant alternative, missing map key)"""
    pass


def deptr(v):
    while isinstance(v, tuple) and len(v) == 2 and v[0] == 'ptr':
        v = v[1]
    return v


def is_handle(v):
    return isinstance(v, Obj) and v.get('__cls__') == SD


def is_poly(v):
    return isinstance(v, Obj) and v.get('__cls__') == 'poly'


class SDEval:
    def __init__(self, db, max_steps=4000000):
        self.db = db
        self.ST = {e['name']: e['val'] for e in db.enum('ccl::rslang::StructureType')['enumerators']}
        self.CMP = {e['name']: e['val'] for e in db.enum('ccl::Comparison')['enumerators']}
        self.it = Interp(db, on_call=self.on_call, max_steps=max_steps)
        self.it.on_range = self.on_range
        self.fcache = {}

    # ------------------------------------------------------------------ helpers
    def fn(self, name, nparams=None, first_param=None):
        key = (name, nparams, first_param)
        if key in self.fcache:
            return self.fcache[key]
        cands = [f for f in self.db.by_name.get(name, []) if not f.rec.get('dependent') and f.body >= 0]
        if nparams is not None:
            cands = [f for f in cands if len(f.rec['params']) == nparams]
        if first_param is not None:
            cands = [f for f in cands if f.rec['params'] and first_param in f.rec['params'][0]['type']]
        if len(cands) != 1:
            raise OutOfFragment('anchor %s: %d candidate definitions' % (name, len(cands)))
        self.fcache[key] = cands[0]
        return cands[0]

    def method(self, cls, name):
        """the definition a call of `name` on an object of dynamic class `cls` reaches (most derived first)"""
        seen = []
        c = cls
        while c:
            seen.append(c)
            cands = [f for f in self.db.by_name.get(c + '::' + name, []) if not f.rec.get('dependent') and f.body >= 0]
            if len(cands) == 1:
                return cands[0]
            rec = self.db.record(c, required=False)
            bases = rec.get('bases', []) if rec else []
            c = None
            for b in bases:
                b = b if b.startswith('ccl::') else O + b
                if self.db.record(b, required=False) is not None:
                    c = b
                    break
        raise OutOfFragment('no definition of %s for %s' % (name, seen))

    def call(self, f, args, this):
        return self.it.call(f, args, this)

    def vcall(self, obj, name, args=()):
        obj = deptr(obj)
        return self.call(self.method(obj['__cls__'], name), list(args), obj)

    # ---- copies -------------------------------------------------------
    def copy_handle(self, h):
        return Obj(h)

    def copy_poly(self, p):
        return Obj(__cls__='poly', inner=self.copy_iter(p['inner']))

    def copy_iter(self, x):
        if isinstance(x, tuple):
            return x
        if isinstance(x, Obj):
            o = Obj()
            for k, v in x.items():
                if isinstance(v, list):
                    o[k] = [self.copy_poly(e) if is_poly(e) else e for e in v]
                else:
                    o[k] = v          # scalars and the pointer to the owning set
            return o
        raise OutOfFragment('iterator value %r' % (x,))

    def clone_setimpl(self, s):
        r = self.vcall(s, 'Clone')
        r = deptr(r)
        if not isinstance(r, Obj):
            raise OutOfFragment('Clone() of %s gave %r' % (s.get('__cls__'), r))
        return r

    def copy_sdset(self, s):
        return Obj(__cls__=SET, impl=self.clone_setimpl(s['impl']))

    def copy_impl(self, m):
        s = m['s']
        if s == 'basic':
            return Obj(__cls__=IMPL, s=s, payload=Obj(m['payload']))
        if s == 'tuple':
            return Obj(__cls__=IMPL, s=s, payload=Obj(__cls__=O + 'SDTuple', components={k: Obj(v) for k, v in m['payload']['components'].items()}))
        return Obj(__cls__=IMPL, s=s, payload=self.copy_sdset(m['payload']))

    def impl_from(self, v):
        v = deptr(v)
        if not isinstance(v, Obj):
            raise OutOfFragment('Impl constructed from %r' % (v,))
        c = v.get('__cls__')
        if c == IMPL:
            return self.copy_impl(v)
        if c == O + 'SDBasicElement':
            return Obj(__cls__=IMPL, s='basic', payload=v)
        if c == O + 'SDTuple':
            return Obj(__cls__=IMPL, s='tuple', payload=v)
        if c == SET:
            return Obj(__cls__=IMPL, s='collection', payload=v)
        raise OutOfFragment('Impl constructed from %s' % c)

    # ---- std::set<StructuredData> through the interpreted operator< -----
    def lt(self, a, b):
        return bool(self.call(self.fn(SD + '::operator<'), [b], a))

    def locate(self, o, x):
        """(index of the first element not less than x, whether it is equivalent to x)"""
        lo, hi = 0, len(o)
        while lo < hi:
            mid = (lo + hi) // 2
            if self.lt(o[mid], x):
                lo = mid + 1
            else:
                hi = mid
        found = lo < len(o) and not self.lt(x, o[lo])
        return lo, found

    # ---- iterators ----------------------------------------------------
    def advance(self, p):
        inner = p['inner']
        if isinstance(inner, tuple):
            if inner[2] >= len(inner[1]):
                raise Crash('increment of a std::set end iterator')
            p['inner'] = ('it', inner[1], inner[2] + 1)
        else:
            self.call(self.method(inner['__cls__'], 'operator++'), [], inner)
        return p

    def deref(self, p):
        inner = p['inner']
        if isinstance(inner, tuple):
            if not (0 <= inner[2] < len(inner[1])):
                raise Crash('dereference of a std::set end iterator')
            return inner[1][inner[2]]
        return deptr(self.call(self.method(inner['__cls__'], 'operator*'), [], inner))

    def iter_eq(self, a, b):
        x, y = a['inner'], b['inner']
        if isinstance(x, tuple) and isinstance(y, tuple):
            return x[1] is y[1] and x[2] == y[2]
        if isinstance(x, Obj) and isinstance(y, Obj) and x.get('__cls__') == y.get('__cls__'):
            return bool(self.call(self.method(x['__cls__'], 'operator=='), [y], x))
        return False

    def elements(self, s, limit=100000):
        """the sequence a range-for over the set visits, through the interpreted begin / end / ++ / *"""
        s = deptr(s)
        if is_handle(s):
            s = self.call(self.fn(SD + '::B'), [], s)
        b = self.call(self.fn(SET + '::begin'), [], s)
        e = self.call(self.fn(SET + '::end'), [], s)
        out = []
        while not self.iter_eq(b, e):
            out.append(self.copy_handle(self.deref(b)))
            self.advance(b)
            if len(out) > limit:
                raise OutOfFragment('iteration does not terminate within %d steps' % limit)
        return out

    def on_range(self, it, v):
        v = deptr(v)
        if isinstance(v, Obj) and v.get('__cls__') == SET:
            return self.elements(v)
        return v

    # ------------------------------------------------------------------ the hook
    def on_call(self, it, fn, n, env):
        k = n['k']
        cs = n.get('cs') or ''
        callee = n.get('callee') or ''
        cls = n.get('cls') or ''
        S = fn.stmts
        last = cs.split('::')[-1]
        ctor = k in ('CXXConstructExpr', 'CXXTemporaryObjectExpr')

        def ev(sid):
            return deptr(it.eval(fn, S[sid], env))

        def args():
            return [ev(a) for a in n.get('args', [])]

        if callee == '__assert_fail':
            return None                                   # release semantics
        # ---- constructions
        if ctor:
            t = (n.get('t') or '')
            if cls == O + 'SDEnumSet' or t.replace('const ', '') == O + 'SDEnumSet':
                a = args()
                if not a:
                    return Obj(__cls__=O + 'SDEnumSet', elements=OrdSet())
                return Obj(__cls__=O + 'SDEnumSet', elements=OrdSet(self.copy_handle(x) for x in a[0]['elements']))
            if cls == IMPL or t.replace('const ', '') in (IMPL, 'StructuredData::Impl'):
                a = args()
                if len(a) != 1:
                    raise OutOfFragment('Impl constructor with %d arguments at %s' % (len(a), fn.loc(n)))
                return self.impl_from(a[0])
            if cls in LAZY:
                f = self.db.by_mn.get(n.get('mn') or '')
                if f is None or f.body < 0:
                    raise OutOfFragment('constructor of %s not found' % cls)
                this = Obj(__cls__=cls, cachedElements={})
                it.construct(f, this, [self.copy_val(x) for x in args()])
                return this
            if callee.startswith(POLY):
                a = args()
                if len(a) != 1:
                    raise OutOfFragment('SDIterator constructed from %d arguments at %s' % (len(a), fn.loc(n)))
                if is_poly(a[0]):
                    return self.copy_poly(a[0])
                return Obj(__cls__='poly', inner=self.copy_iter(a[0]))
            if cls == SD and (n.get('copyctor') or n.get('movector')):
                return self.copy_handle(args()[0])
            if cls.startswith(('std::unique_ptr', 'std::shared_ptr')):
                a = args()
                return a[0] if a else None
            return NOT_HANDLED
        # ---- make_unique / make_shared
        if k == 'CallExpr' and callee in ('std::make_unique', 'std::make_shared'):
            T = (n.get('targs') or [''])[0]
            a = args()
            if T.endswith('SDEnumSet'):
                return Obj(__cls__=O + 'SDEnumSet', elements=OrdSet(self.copy_handle(x) for x in a[0]['elements'])) if a else Obj(__cls__=O + 'SDEnumSet', elements=OrdSet())
            if T.endswith(('SDPowerSet', 'SDDecartian')):
                c = O + T.split('::')[-1]
                f = self.fn(c + '::' + T.split('::')[-1])
                this = Obj(__cls__=c, cachedElements={})
                it.construct(f, this, [self.copy_val(x) for x in a])
                return this
            if T.endswith('Impl'):
                return self.impl_from(a[0]) if not (isinstance(a[0], Obj) and a[0].get('__cls__') == SET) else Obj(__cls__=IMPL, s='collection', payload=self.copy_sdset(a[0]))
            raise OutOfFragment('%s<%s> at %s' % (callee, T, fn.loc(n)))
        # ---- shared_ptr
        if k == 'CXXMemberCallExpr' and last == 'use_count' and 'shared_ptr' in callee:
            return 2
        # ---- Structured<E,T,B> on an implementation object
        if k == 'CXXMemberCallExpr' and callee.startswith(STRUCT) and 'obj' in n:
            m = ev(n['obj'])
            if not (isinstance(m, Obj) and m.get('__cls__') == IMPL):
                raise OutOfFragment('Structured::%s on %r at %s' % (last, type(m), fn.loc(n)))
            if last == 'Structure':
                return self.ST[m['s']]
            if last in ('IsElement', 'IsTuple', 'IsCollection'):
                return m['s'] == {'IsElement': 'basic', 'IsTuple': 'tuple', 'IsCollection': 'collection'}[last]
            if last in ('E', 'T', 'B'):
                want = {'E': 'basic', 'T': 'tuple', 'B': 'collection'}[last]
                if m['s'] != want:
                    raise Crash('%s() on a value holding a %s at %s' % (last, m['s'], fn.loc(n)))
                return m['payload']
        # ---- virtual calls on the set implementation
        if k == 'CXXMemberCallExpr' and callee.startswith(SETIMPL) and 'obj' in n:
            o = ev(n['obj'])
            if not isinstance(o, Obj) or '__cls__' not in o:
                raise OutOfFragment('virtual %s on %r at %s' % (last, type(o), fn.loc(n)))
            f = self.method(o['__cls__'], last)
            return it.call(f, [self.copy_val(x) if p['type'].replace('const ', '').strip() == SD or p['type'] == 'ccl::object::StructuredData' else x
                               for x, p in zip(args(), f.rec['params'])], o)
        # ---- std::set<StructuredData>
        if k == 'CXXMemberCallExpr' and cs.startswith('std::set::') and 'obj' in n:
            o = ev(n['obj'])
            if isinstance(o, OrdSet):
                a = args()
                if last in ('begin', 'cbegin'):
                    return ('it', o, 0)
                if last in ('end', 'cend'):
                    return ('it', o, len(o))
                if last in ('size',):
                    return len(o)
                if last == 'empty':
                    return not o
                if last in ('contains', 'count') and len(a) == 1:
                    _, found = self.locate(o, a[0])
                    return found if last == 'contains' else int(found)
                if last == 'find' and len(a) == 1:
                    i, found = self.locate(o, a[0])
                    return ('it', o, i if found else len(o))
                if last in ('insert', 'emplace') and len(a) == 1:
                    i, found = self.locate(o, a[0])
                    if not found:
                        o.insert(i, self.copy_handle(a[0]))
                    return Obj(first=('it', o, i), second=not found)
                if last == 'erase' and len(a) == 1 and is_handle(a[0]):
                    i, found = self.locate(o, a[0])
                    if found:
                        del o[i]
                    return int(found)
                if last == 'clear':
                    del o[:]
                    return None
                raise OutOfFragment('std::set operation %s at %s' % (last, fn.loc(n)))
        # ---- vectors / maps holding handles or iterators: storing is copying
        if k == 'CXXMemberCallExpr' and cs.startswith('std::vector::') and last in ('emplace_back', 'push_back') and 'obj' in n and len(n.get('args', [])) == 1:
            o = ev(n['obj'])
            v = ev(n['args'][0])
            if isinstance(o, list) and isinstance(v, Obj):
                c = self.copy_val(v)
                o.append(c)
                return c
            if isinstance(o, list) and isinstance(v, tuple) and len(v) == 3 and v[0] == 'it' and 'PolyFCIterator' in callee:
                c = Obj(__cls__='poly', inner=v)
                o.append(c)
                return c
        if k == 'CXXMemberCallExpr' and cs.startswith(('std::unordered_map::', 'std::map::')) and last in ('emplace', 'insert', 'try_emplace') and len(n.get('args', [])) == 2 and 'obj' in n:
            o = ev(n['obj'])
            key, v = args()
            if isinstance(o, dict) and not isinstance(o, Obj) and is_handle(v):
                isnew = key not in o
                if isnew:
                    o[key] = self.copy_handle(v)
                return Obj(first=('mapit', o, key), second=isnew)
        if k == 'CXXMemberCallExpr' and cs.startswith(('std::unordered_map::', 'std::map::')) and last == 'at' and 'obj' in n:
            o = ev(n['obj'])
            a = args()
            if isinstance(o, dict) and not isinstance(o, Obj) and len(a) == 1 and a[0] not in o:
                raise Crash('map::at(%r) on a map with keys %s at %s' % (a[0], sorted(o), fn.loc(n)))
        # ---- the polymorphic iterator
        if callee.startswith(POLY):
            if k == 'CXXOperatorCallExpr':
                op = n.get('op')
                a = args()
                if not a or not is_poly(a[0]):
                    raise OutOfFragment('SDIterator operator%s on %r at %s' % (op, type(a[0]) if a else None, fn.loc(n)))
                if op == '++':
                    if len(a) > 1:
                        old = self.copy_poly(a[0])
                        self.advance(a[0])
                        return old
                    return self.advance(a[0])
                if op == '*':
                    return self.deref(a[0])
                if op == '->':
                    return self.deref(a[0])
                if op in ('==', '!='):
                    if not is_poly(a[1]):
                        raise OutOfFragment('SDIterator comparison with %r' % type(a[1]))
                    return self.iter_eq(a[0], a[1]) == (op == '==')
                if op == '=':
                    if not is_poly(a[1]):
                        raise OutOfFragment('SDIterator assignment from %r' % type(a[1]))
                    a[0]['inner'] = self.copy_iter(a[1]['inner'])      # in place: the target may be an element of a vector bound by reference
                    return a[0]
            raise OutOfFragment('SDIterator member %s at %s' % (callee[len(POLY):], fn.loc(n)))
        # ---- std algorithms and range access over sets
        if k == 'CallExpr' and cs in ('std::begin', 'std::end', 'std::cbegin', 'std::cend') and n.get('args'):
            o = ev(n['args'][0])
            if isinstance(o, Obj) and o.get('__cls__') == SET:
                return it.call(self.fn(SET + ('::begin' if 'begin' in cs else '::end')), [], o)
            if isinstance(o, Obj) and o.get('__cls__') in LAZY + (O + 'SDEnumSet',):
                return self.vcall(o, 'begin' if 'begin' in cs else 'end')
        if k == 'CallExpr' and cs in ('std::all_of', 'std::any_of', 'std::none_of', 'std::find_if', 'std::count_if') and len(n.get('args', [])) == 3:
            b, e, lam = args()
            if is_poly(b) and is_poly(e):
                # as libstdc++ writes them: the scan tests `first != last`, the verdict is `last == found` (the orientation matters when
                # the iterator's operator== is not symmetric)
                b = self.copy_poly(b)
                hits = 0
                want_true = cs in ('std::any_of', 'std::none_of', 'std::find_if', 'std::count_if')   # scan stops at the first element where pred is this
                if cs == 'std::count_if':
                    while not self.iter_eq(b, e):
                        hits += 1 if it.call_lambda(lam, [self.deref(b)]) else 0
                        self.advance(b)
                    return hits
                while not self.iter_eq(b, e) and bool(it.call_lambda(lam, [self.deref(b)])) != want_true:
                    self.advance(b)
                if cs == 'std::find_if':
                    return b
                at_end = self.iter_eq(e, b)
                return at_end if cs in ('std::all_of', 'std::none_of') else not at_end
        # ---- calls inside generic lambdas: dispatch on the dynamic class of the receiver
        if cs.startswith('<dependent>::') and 'obj' in n:
            o = ev(n['obj'])
            if isinstance(o, Obj) and o.get('__cls__', '').startswith('ccl::'):
                f = self.method(o['__cls__'], last)
                return it.call(f, args(), o)
        if k == 'CallExpr' and n.get('c') and not cs.startswith('std::'):
            ce = fn.strip(S[n['c'][0]])
            if ce is not None and ce['k'] in ('UnresolvedMemberExpr', 'MemberExpr') and ce.get('member') and ce.get('c'):
                o = ev(ce['c'][0])
                if isinstance(o, Obj) and o.get('__cls__', '').startswith('ccl::'):
                    f = self.method(o['__cls__'], ce['member'])
                    return it.call(f, args(), o)
        return NOT_HANDLED

    def copy_val(self, v):
        if is_handle(v):
            return self.copy_handle(v)
        if is_poly(v):
            return self.copy_poly(v)
        if isinstance(v, list) and not isinstance(v, OrdSet):
            return [self.copy_val(x) for x in v]
        return v

    # ------------------------------------------------------------------ the client interface (what a user of StructuredData.h can do)
    def F(self, name, *args):
        return self.call(self.fn(O + 'Factory::' + name), list(args), None)

    def build(self, d):
        """descriptor -> handle, through the interpreted factories.
        int | ('t', d...) | ('s', d...)  enumerated, in the given insertion order (duplicates allowed) | ('x', d...) lazy product | ('b', d) lazy power set"""
        if isinstance(d, int):
            return self.F('Val', d)
        tag = d[0]
        if tag == 't':
            return self.F('Tuple', [self.build(x) for x in d[1:]])
        if tag == 's':
            return self.F('Set', [self.build(x) for x in d[1:]])
        if tag == 'x':
            return self.F('Decartian', [self.build(x) for x in d[1:]])
        if tag == 'b':
            return self.F('Boolean', self.build(d[1]))
        raise ValueError(d)

    def structure(self, h):
        return self.call(self.fn(SD + '::Structure'), [], h)

    def read(self, h, limit=5000):
        """what the value denotes, observed only through the public interface: Structure, E().Value, T().Arity/Component, iteration of B()"""
        st = self.structure(h)
        if st == self.ST['basic']:
            e = self.call(self.fn(SD + '::E'), [], h)
            return self.call(self.fn(O + 'SDBasicElement::Value'), [], e)
        if st == self.ST['tuple']:
            t = self.call(self.fn(SD + '::T'), [], h)
            ar = self.call(self.fn(O + 'SDTuple::Arity'), [], t)
            return tuple(self.read(self.call(self.fn(O + 'SDTuple::Component'), [i], t)) for i in range(1, ar + 1))
        els = [self.read(x) for x in self.elements(h, limit)]
        return ('seq', els)

    def compare(self, a, b):
        return self.call(self.fn(SD + '::Compare'), [b], a)

    def eq(self, a, b):
        return bool(self.call(self.fn(SD + '::operator=='), [b], a))

    def setop(self, name, a, *args):
        s = self.call(self.fn(SD + '::B'), [], a)
        return self.call(self.fn(SET + '::' + name), list(args), s)

    def B(self, a):
        return self.call(self.fn(SD + '::B'), [], a)

    def modify_add(self, h, e):
        s = self.call(self.fn(SD + '::ModifyB'), [], h)
        return bool(self.call(self.fn(SET + '::AddElement'), [self.copy_handle(e)], s))
