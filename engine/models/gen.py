"""E3/GEN — the text the generator emits for a model tree, obtained by partial evaluation of GeneratorImplAST's visitor
methods (and Token::ToString / Token::Str / ConvertID) over the typed AST: for a given tree shape the methods reduce to a
byte string.  Used only on the finite family of (parent operator x child operator x position) shapes that the methods can
distinguish (they look at node ids, child ids and child counts only)."""
from ..evalmini import Interp, Obj, OutOfFragment, NOT_HANDLED, UNKNOWN
from ..facts import AnalysisBroken
from .act import Tree

GEN = 'ccl::rslang::GeneratorImplAST'


class GenModel:
    def __init__(self, db):
        self.db = db
        self.tokid = {e['name']: e['val'] for e in db.enum('ccl::rslang::TokenID')['enumerators']}
        self.syntax = {e['name']: e['val'] for e in db.enum('ccl::rslang::Syntax')['enumerators']}
        cands = [f for f in db.functions if f.name == 'ccl::rslang::SyntaxTree::Cursor::DispatchVisit' and GEN.split('::')[-1] in ' '.join(p['type'] for p in f.rec['params'])]
        if not cands:
            raise AnalysisBroken('instantiation Cursor::DispatchVisit<GeneratorImplAST> not found')
        self.dispatch = cands[0]

    def _node(self, t, parent=None):
        data = Obj(__kind__='tokendata', value=t.data)
        tok = Obj(id=self.tokid[t.id] if isinstance(t.id, str) else t.id, pos=Obj(start=t.start, finish=t.finish), data=data)
        n = Obj(token=tok, children=[], parent=parent, __kind__='astnode')
        for c in t.children:
            n['children'].append(self._node(c, n))
        return n

    def _on_call(self, it, fn, n, env):
        cs = n.get('cs') or ''
        S = fn.stmts
        if cs.startswith('ccl::rslang::TokenData::') and 'obj' in n:
            o = it.eval(fn, S[n['obj']], env)
            last = cs.split('::')[-1]
            v = o.get('value') if isinstance(o, Obj) else None
            if last == 'ToText':
                if not isinstance(v, (bytes, bytearray)):
                    raise OutOfFragment('TokenData::ToText on non-text payload')
                return bytes(v)
            if last == 'ToInt':
                if not isinstance(v, int):
                    raise OutOfFragment('TokenData::ToInt on non-int payload')
                return v
            if last == 'ToTuple':
                if not isinstance(v, list):
                    raise OutOfFragment('TokenData::ToTuple on non-tuple payload')
                return v
            if last == 'HasValue':
                return v is not None
        if cs == 'std::accumulate' and len(n.get('args', [])) == 4:
            a, b, init, lam = (it.eval(fn, S[x], env) for x in n['args'])
            if a[0] == 'it' and b[0] == 'it' and isinstance(lam, tuple) and lam[0] == 'lambda':
                acc = init
                for x in a[1][a[2]:b[2]]:
                    acc = it.call_lambda(lam, [acc, x])
                return acc
            raise OutOfFragment('std::accumulate form')
        if cs.startswith('std::basic_string_view::') or cs.startswith('std::basic_string::') or cs.startswith('std::__cxx11::basic_string::'):
            last = cs.split('::')[-1]
            if n['k'] == 'CXXMemberCallExpr' and 'obj' in n:
                o = it.eval(fn, S[n['obj']], env)
                if isinstance(o, (bytes, bytearray)):
                    args = [it.eval(fn, S[a], env) for a in n.get('args', [])]
                    if last == 'at':
                        if not (0 <= args[0] < len(o)):
                            raise OutOfFragment('string at() out of range')
                        return o[args[0]]
                    if last in ('size', 'length'):
                        return len(o)
                    if last == 'empty':
                        return len(o) == 0
                    if last.startswith('operator basic_string_view') or last.startswith('operator '):
                        return bytes(o)
            if n['k'] == 'CXXOperatorCallExpr' and n.get('op') == '[]':
                o = it.eval(fn, S[n['args'][0]], env)
                i = it.eval(fn, S[n['args'][1]], env)
                if isinstance(o, (bytes, bytearray)):
                    return o[i] if 0 <= i < len(o) else 0
        if n['k'] in ('CXXConstructExpr', 'CXXTemporaryObjectExpr') and (n.get('cls') or '').startswith('std::basic_string_view'):
            args = [it.eval(fn, S[a], env) for a in n.get('args', [])]
            args = [a for a in args if a is not UNKNOWN]
            return bytes(args[0]) if args else b''
        if cs in ('std::size', 'std::ssize') and n.get('args'):
            o = it.eval(fn, S[n['args'][0]], env)
            if isinstance(o, (bytes, bytearray)):
                return len(o)
        return NOT_HANDLED

    def interp(self):
        return Interp(self.db, on_call=self._on_call, max_steps=2000000)

    def print(self, tree, syntax):
        root = self._node(tree)
        vis = Obj(rsText=b'', syntax=self.syntax[syntax], __cls__=GEN)
        cur = Obj(node=root)
        it = self.interp()
        it.call(self.dispatch, [vis], cur)
        return vis['rsText']
