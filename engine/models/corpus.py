"""Sentence corpus over token kinds (not text): every grammar construct, used by C06 (ranges, action coverage) and as the
seed of the tree family of C05.  A sentence is a list of (TokenID name, payload, width)."""

GREEK_ALPHA = 'α'.encode()
GREEK_XI = 'ξ'.encode()

ATOMS = {
    'G1': ('ID_GLOBAL', b'X1'), 'G2': ('ID_GLOBAL', b'X2'), 'G3': ('ID_GLOBAL', b'D1'), 'S1': ('ID_GLOBAL', b'S1'),
    'a': ('ID_LOCAL', b'a'), 'b': ('ID_LOCAL', b'b'), 'c': ('ID_LOCAL', b'c'), 'al': ('ID_LOCAL', GREEK_ALPHA + b'1'), 'xi': ('ID_LOCAL', GREEK_XI),
    'F1': ('ID_FUNCTION', b'F1'), 'P1': ('ID_PREDICATE', b'P1'), 'R1': ('ID_RADICAL', b'R1'),
    'I1': ('LIT_INTEGER', 1), 'I2': ('LIT_INTEGER', 42), 'Z': ('LIT_INTSET', None), 'E': ('LIT_EMPTYSET', None),
    'Pr1': ('BIGPR', [1]), 'Pr12': ('BIGPR', [1, 2]), 'pr2': ('SMALLPR', [2]), 'pr13': ('SMALLPR', [1, 3]), 'Fi1': ('FILTER', [1]), 'Fi12': ('FILTER', [1, 2]),
    '(': ('PUNC_PL', None), ')': ('PUNC_PR', None), '{': ('PUNC_CL', None), '}': ('PUNC_CR', None), '[': ('PUNC_SL', None), ']': ('PUNC_SR', None),
    '|': ('PUNC_BAR', None), ',': ('PUNC_COMMA', None), ';': ('PUNC_SEMICOLON', None), ':==': ('PUNC_DEFINE', None), '::=': ('PUNC_STRUCT', None),
}


def sentence(text):
    out = []
    for w in text.split():
        if w in ATOMS:
            name, data = ATOMS[w]
        else:
            name, data = w, None
        out.append((name, data, 1))
    return out


SET_BIN = ['PLUS', 'MINUS', 'MULTIPLY', 'UNION', 'INTERSECTION', 'SET_MINUS', 'SYMMINUS', 'DECART']
LOGIC_BIN = ['EQUIVALENT', 'IMPLICATION', 'OR', 'AND']
PREDICATES = ['IN', 'NOTIN', 'SUBSET', 'SUBSET_OR_EQ', 'NOTSUBSET', 'NOTEQUAL', 'EQUAL', 'GREATER', 'LESSER', 'GREATER_OR_EQ', 'LESSER_OR_EQ']
TEXT_FUNCS = ['BOOL', 'DEBOOL', 'REDUCE', 'Pr1', 'Pr12', 'pr2', 'pr13', 'CARD']

CORPUS = [
    'G1', 'a', 'R1', 'I1', 'Z', 'E', 'F1', 'P1',
    'G1 :==', 'F1 :==', 'P1 :==',
    'G3 :== G1 UNION G2', 'S1 ::= BOOLEAN ( G1 DECART G2 )', 'G3 :== a IN G1',
    'F1 :== [ a IN G1 , b IN BOOLEAN ( G1 ) ] a IN b',
    'P1 :== [ a IN R1 ] a EQUAL a',
    '[ al IN G1 ] al UNION G1',
    'FORALL a IN G1 a IN G2', 'EXISTS a , b IN G1 a EQUAL b', 'FORALL a , b , c IN G1 a EQUAL b',
    'FORALL ( a , b ) IN G1 a EQUAL b', 'EXISTS ( a , ( b , c ) ) IN G1 a EQUAL b', 'FORALL a , ( b , c ) IN G1 a EQUAL b',
    'FORALL a IN G1 EXISTS b IN G2 a EQUAL b', 'FORALL a IN G1 ( a IN G2 AND a IN G3 )', 'FORALL a IN G1 NOT a IN G2',
    'NOT a IN G1', 'NOT NOT a IN G1', 'NOT ( a IN G1 AND b IN G1 )', 'NOT ( a IN G1 )', 'NOT P1 [ a ]',
    'P1 [ G1 , G2 ]', 'P1 [ G1 ]', 'F1 [ G1 ]', 'F1 [ G1 , G2 , G3 ]', 'F1 [ F1 [ G1 ] ]',
    '{ G1 , G2 }', '{ G1 }', '{ G1 , G2 , G3 }', '( G1 , G2 )', '( G1 , G2 , G3 )', '( ( G1 , G2 ) , G3 )',
    'BOOLEAN ( G1 )', 'BOOLEAN BOOLEAN ( G1 )', 'BOOLEAN ( G1 DECART G2 )',
    'Fi1 [ G1 ] ( G2 )', 'Fi12 [ G1 , G2 ] ( G3 )',
    '{ a IN G1 | a IN G2 }', 'DECLARATIVE { a IN G1 | a IN G2 }', 'DECLARATIVE { ( a , b ) IN G1 | a IN b }', 'DECLARATIVE { xi IN G1 | xi IN G2 AND xi IN G3 }',
    'RECURSIVE { a ASSIGN G1 | a UNION G2 }', 'RECURSIVE { a ASSIGN G1 | CARD ( a ) LESSER I2 | a UNION G2 }', 'RECURSIVE { ( a , b ) ASSIGN ( G1 , G2 ) | ( b , a ) }',
    'IMPERATIVE { a | a ITERATE G1 }', 'IMPERATIVE { a | a ITERATE G1 ; b ASSIGN a ; b IN G2 }', 'IMPERATIVE { ( a , b ) | a ITERATE G1 ; b ITERATE G2 ; a NOTEQUAL b }',
    'IMPERATIVE { a | ( a , b ) ITERATE G1 }',
    '( G1 UNION G2 )', '( G1 UNION G2 ) INTERSECTION G3', 'G1 UNION ( G2 INTERSECTION G3 )', '( ( G1 UNION G2 ) )',
    '( a IN G1 ) AND b IN G1', '( a IN G1 AND b IN G1 ) OR c IN G1', 'a IN G1 AND ( b IN G1 OR c IN G1 )',
    'I1 PLUS I2 MULTIPLY I1', 'CARD ( G1 ) PLUS I1', 'I1 LESSER I2',
    'G1 DECART G2 DECART G3', '( G1 DECART G2 ) DECART G3', 'G1 DECART ( G2 DECART G3 )',
    'debool_holder',
]
CORPUS = [s for s in CORPUS if s != 'debool_holder']
for op in SET_BIN:
    CORPUS.append('G1 %s G2' % op)
for op in LOGIC_BIN:
    CORPUS.append('a IN G1 %s b IN G2' % op)
for op in PREDICATES:
    CORPUS.append('G1 %s G2' % op)
for tf in TEXT_FUNCS:
    CORPUS.append('%s ( G1 )' % tf)


def corpus():
    return [(s, sentence(s)) for s in CORPUS]
