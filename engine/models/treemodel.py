"""E4 harness for syntax trees: SyntaxTree::Node and its editing operations (SyntaxTree.cpp) and the Normalizer (ASTNormalizer.cpp) are
interpreted from their typed AST. Supplied here: the token payload variant (TokenData), Token construction/printing for local identifiers,
make_unique<Node>, the copy of a whole SyntaxTree and the term-function context callback.

Trees are exchanged with the rules as python descriptors  (KIND, data, [children])  where data is None | str | int | tuple(indices).
"""
from engine.evalmini import Interp, Obj, OutOfFragment, NOT_HANDLED, UNKNOWN

NS = 'ccl::rslang::'
NODE = NS + 'SyntaxTree::Node'


class TreeEval:
    def __init__(self, db, max_steps=3000000):
        self.db = db
        self.TID = {e['name']: e['val'] for e in db.enum(NS + 'TokenID')['enumerators']}
        self.TNAME = {v: k for k, v in self.TID.items()}
        self.it = Interp(db, on_call=self.on_call, max_steps=max_steps)
        self.funcs = {}
        self.fcache = {}

    def fn(self, name, nparams=None, ptype=None):
        key = (name, nparams, ptype)
        if key not in self.fcache:
            c = [f for f in self.db.by_name.get(name, []) if not f.rec.get('dependent') and f.body >= 0]
            if nparams is not None:
                c = [f for f in c if len(f.rec['params']) == nparams]
            if ptype is not None:
                c = [f for f in c if f.rec['params'] and ptype in f.rec['params'][0]['type']]
            if len(c) != 1:
                raise OutOfFragment('anchor %s: %d candidate definitions' % (name, len(c)))
            self.fcache[key] = c[0]
        return self.fcache[key]

    # ---- descriptors <-> node objects
    def token(self, kind, data, pos=(0, 1)):
        return Obj(__cls__=NS + 'Token', id=self.TID[kind], pos=Obj(__cls__='ccl::StrRange', start=pos[0], finish=pos[1]), data=self.tdata(data))

    def tdata(self, data):
        if isinstance(data, str):
            data = data.encode('utf-8')
        if isinstance(data, tuple):
            data = list(data)
        return Obj(__cls__=NS + 'TokenData', v=data)

    def node(self, d, parent=None):
        kind, data, kids = d
        n = Obj(__cls__=NODE, parent=parent, children=[], token=self.token(kind, data))
        n['children'] = [self.node(k, n) for k in kids]
        return n

    def desc(self, n):
        v = n['token']['data']['v']
        if isinstance(v, (bytes, bytearray)):
            v = bytes(v).decode('utf-8', 'replace')
        elif isinstance(v, list):
            v = tuple(v)
        return (self.TNAME.get(n['token']['id'], str(n['token']['id'])), v, [self.desc(c) for c in n['children']])

    def copy_token(self, t):
        v = t['data']['v']
        return Obj(__cls__=NS + 'Token', id=t['id'], pos=Obj(t['pos']), data=Obj(__cls__=NS + 'TokenData', v=list(v) if isinstance(v, list) else v))

    def deep_copy(self, n, parent=None):
        m = Obj(__cls__=NODE, parent=parent, children=[], token=self.copy_token(n['token']))
        m['children'] = [self.deep_copy(c, m) for c in n['children']]
        return m

    def check_parents(self, n, problems, path='root'):
        for i, c in enumerate(n['children']):
            if c['parent'] is not n:
                problems.append('%s child %d has a parent link that is not its parent' % (path, i))
            self.check_parents(c, problems, '%s/%d' % (path, i))

    # ---- hooks
    def on_call(self, it, fn, n, env):
        k = n['k']
        cs = n.get('cs') or ''
        callee = n.get('callee') or ''
        cls = n.get('cls') or ''
        S = fn.stmts
        last = cs.split('::')[-1]
        ctor = k in ('CXXConstructExpr', 'CXXTemporaryObjectExpr')

        def ev(sid):
            v = it.eval(fn, S[sid], env)
            while isinstance(v, tuple) and len(v) == 2 and v[0] == 'ptr':
                v = v[1]
            return v

        def args():
            return [ev(a) for a in n.get('args', [])]
        if callee == '__assert_fail':
            return None
        if ctor and cls == NS + 'TokenData':
            a = args()
            if n.get('copyctor') or n.get('movector'):
                v = a[0]['v']
                return Obj(__cls__=NS + 'TokenData', v=list(v) if isinstance(v, list) else v)
            v = a[0] if a else None
            if v is UNKNOWN:
                v = None
            return Obj(__cls__=NS + 'TokenData', v=list(v) if isinstance(v, list) else v)
        if cs.startswith(NS + 'TokenData::') and 'obj' in n:
            o = ev(n['obj'])
            if last in ('ToText', 'ToTuple', 'ToInt'):
                want = {'ToText': (bytes, bytearray), 'ToTuple': (list,), 'ToInt': (int,)}[last]
                if not isinstance(o['v'], want):
                    raise OutOfFragment('TokenData::%s() on a payload holding %r at %s (std::bad_variant_access)' % (last, type(o['v']).__name__, fn.loc(n)))
                return o['v']
            if last in ('IsText', 'IsTuple', 'IsInt', 'HasData'):
                return {'IsText': isinstance(o['v'], (bytes, bytearray)), 'IsTuple': isinstance(o['v'], list), 'IsInt': isinstance(o['v'], int) and not isinstance(o['v'], bool), 'HasData': o['v'] is not None}[last]
        if k == 'CXXOperatorCallExpr' and n.get('op') == '=' and callee.startswith(NS + 'TokenData::operator='):
            a = args()
            v = a[1]['v']
            a[0]['v'] = list(v) if isinstance(v, list) else v          # in place: the target is a member of a token
            return a[0]
        if k == 'CXXOperatorCallExpr' and n.get('op') in ('==', '!=') and callee.startswith(NS + 'TokenData::operator'):
            a = args()
            return (a[0]['v'] == a[1]['v']) == (n['op'] == '==')
        if ctor and cls == NS + 'Token':
            a = args()
            if n.get('copyctor') or n.get('movector'):
                return self.copy_token(a[0])
            if not a:
                return Obj(__cls__=NS + 'Token', id=self.TID['INTERRUPT'], pos=Obj(__cls__='ccl::StrRange', start=0, finish=0), data=Obj(__cls__=NS + 'TokenData', v=None))
            a = [x for x in a if x is not UNKNOWN]
            pos = a[1] if len(a) > 1 else Obj(__cls__='ccl::StrRange', start=0, finish=0)
            data = a[2] if len(a) > 2 else Obj(__cls__=NS + 'TokenData', v=None)
            return Obj(__cls__=NS + 'Token', id=a[0], pos=Obj(pos), data=data)
        if k == 'CXXOperatorCallExpr' and n.get('op') == '=' and callee.startswith(NS + 'Token::operator='):
            a = args()
            c = self.copy_token(a[1])
            a[0]['id'], a[0]['pos'], a[0]['data'] = c['id'], c['pos'], c['data']
            return a[0]
        if cs == NS + 'Token::ToString' and 'obj' in n:
            o = ev(n['obj'])
            if o['id'] in (self.TID['ID_LOCAL'], self.TID['ID_GLOBAL'], self.TID['ID_FUNCTION'], self.TID['ID_PREDICATE'], self.TID['ID_RADICAL']) and isinstance(o['data']['v'], (bytes, bytearray)):
                return bytes(o['data']['v'])      # identifiers print their text (MATH spelling; transliteration only concerns ASCII output)
            raise OutOfFragment('Token::ToString of a %s token' % self.TNAME.get(o['id']))
        if k == 'CallExpr' and callee in ('std::make_unique', 'std::make_shared'):
            T = (n.get('targs') or [''])[0]
            if T.endswith('SyntaxTree::Node') or T == 'Node':
                a = args()
                if len(a) == 1 and isinstance(a[0], Obj) and a[0].get('__cls__') == NODE:
                    this = Obj(__cls__=NODE, parent=None, children=[], token=self.token('INTERRUPT', None))
                    it.construct(self.fn(NODE + '::Node', 1, 'Node'), this, [a[0]])
                    return this
                if len(a) == 1 and isinstance(a[0], Obj) and a[0].get('__cls__') == NS + 'Token':
                    return Obj(__cls__=NODE, parent=None, children=[], token=self.copy_token(a[0]))
                raise OutOfFragment('make_unique<Node> form at %s' % fn.loc(n))
        if ctor and cls == NS + 'SyntaxTree' and (n.get('copyctor') or (len(n.get('args', [])) == 1)):
            a = args()
            if isinstance(a[0], Obj) and a[0].get('__cls__') == NS + 'SyntaxTree':
                return Obj(__cls__=NS + 'SyntaxTree', root=self.deep_copy(a[0]['root']))
        if k == 'CXXOperatorCallExpr' and n.get('op') == '()' and n.get('args'):
            f0 = ev(n['args'][0])
            if isinstance(f0, Obj) and f0.get('__kind__') == 'pyfunc':
                return f0['f'](*[ev(a) for a in n['args'][1:]])
        if k == 'CXXOperatorCallExpr' and n.get('op') == '=' and cs.startswith(('std::unique_ptr::', 'ccl::meta::UniqueCPPtr')) and len(n.get('args', [])) == 2:
            v = ev(n['args'][1])
            it.assign(fn, S[n['args'][0]], v, env)
            return v
        if cs in ('std::make_pair',) and len(n.get('args', [])) == 2:
            return tuple(args())
        return NOT_HANDLED

    # ---- client interface
    def normalize(self, tree_desc, funcs=None):
        """SyntaxTree::Normalize on the tree; funcs: {name: descriptor of the stored function tree PUNC_DEFINE(name, NT_FUNC_DEFINITION(args, body))}"""
        self.funcs = {k: Obj(__cls__=NS + 'SyntaxTree', root=self.node(v)) for k, v in (funcs or {}).items()}

        def ctx(name):
            name = bytes(name).decode() if isinstance(name, (bytes, bytearray)) else name
            return self.funcs.get(name)
        root = self.node(tree_desc)
        nz = self.it.default_construct(NS + 'Normalizer') if False else None
        nz = Obj(__cls__=NS + 'Normalizer')
        ctor = self.fn(NS + 'Normalizer::Normalizer')
        self.it.construct(ctor, nz, [Obj(__kind__='pyfunc', f=ctx)])
        self.it.call(self.fn(NS + 'Normalizer::Normalize', nparams=1), [root], nz)       # the public entry (a depth-carrying overload may exist beside it)
        problems = []
        self.check_parents(root, problems)
        return self.desc(root), problems
