"""E3/LR — the LALR(1) pushdown automaton of the RSLang parser, read from the tables that are compiled into the
library (static arrays of RSParserImpl in the fact database), plus the semantic actions of `RSParserImpl::parse()`
taken from the typed AST of its `switch (yyn)`.

Queries are asked of the automaton (table walk); no C++ is executed."""
from ..facts import AnalysisBroken

P = 'ccl::rslang::detail::RSParserImpl'


def _array(db, name, owner=None):
    cands = [f for f in db.functions if f.name.endswith(name + '::<init>') and (owner is None or owner in f.name)]
    if not cands:
        raise AnalysisBroken('parser table %s not found in the compiled unit' % name)
    f = cands[0]
    n = f.stmts[f.body]
    while n['k'] != 'InitListExpr':
        cs = f.children(n)
        if not cs:
            raise AnalysisBroken('parser table %s: initialiser not recognised' % name)
        n = cs[0]
    out = []
    for c in f.children(n):
        c = f.strip(c)
        if 'cv' in c:
            out.append(c['cv'])
        elif c['k'] == 'StringLiteral':
            out.append(bytes.fromhex(c.get('hex', '')).decode('utf-8', 'replace'))
        elif c['k'] in ('CXXNullPtrLiteralExpr', 'GNUNullExpr', 'ImplicitValueInitExpr'):
            out.append(None)
        elif c['k'] == 'UnaryOperator' and c.get('op') == '-':
            out.append(-f.strip(f.children(c)[0])['cv'])
        else:
            raise AnalysisBroken('parser table %s: element %s not recognised' % (name, c['k']))
    return out


def _scalar(db, name):
    cands = [f for f in db.functions if f.name == P + '::' + name + '::<init>']
    if not cands:
        raise AnalysisBroken('parser constant %s not found' % name)
    f = cands[0]
    n = f.strip(f.stmts[f.body])
    if 'cv' in n:
        return n['cv']
    raise AnalysisBroken('parser constant %s not constant' % name)


class LR:
    def __init__(self, db):
        self.db = db
        self.pact = _array(db, 'yypact_')
        self.defact = _array(db, 'yydefact_')
        self.pgoto = _array(db, 'yypgoto_')
        self.defgoto = _array(db, 'yydefgoto_')
        self.table = _array(db, 'yytable_')
        self.check = _array(db, 'yycheck_')
        self.stos = _array(db, 'yystos_')
        self.r1 = _array(db, 'yyr1_')
        self.r2 = _array(db, 'yyr2_')
        self.tname = [x for x in _array(db, 'yytname_') if x is not None]
        self.translate = _array(db, 'translate_table')
        self.pact_ninf = _scalar(db, 'yypact_ninf_')
        self.table_ninf = _scalar(db, 'yytable_ninf_')
        consts = {}
        for e in db.enums.values():
            if e['name'].startswith(P + '::'):
                for x in e['enumerators']:
                    consts[x['name']] = x['val']
        for k in ('yylast_', 'yynnts_', 'yyfinal_'):
            if k not in consts:
                raise AnalysisBroken('parser constant %s not found' % k)
        self.last = consts['yylast_']
        self.nnts = consts['yynnts_']
        self.final = consts['yyfinal_']
        self.ntokens = len(self.tname) - self.nnts
        self.nstates = len(self.pact)
        self.nrules = len(self.r1)
        self.sym = {n: i for i, n in enumerate(self.tname)}
        self.actions = None

    # ---- automaton
    def terminal_of_token(self, token_value):
        if token_value <= 0:
            return 0
        if token_value < len(self.translate):
            return self.translate[token_value]
        return 2

    def action(self, state, tok):
        """('shift', s) | ('reduce', r) | ('accept',) | ('error',)"""
        yyn = self.pact[state]
        if yyn != self.pact_ninf:
            yyn += tok
            if 0 <= yyn <= self.last and self.check[yyn] == tok:
                yyn = self.table[yyn]
                if yyn <= 0:
                    if yyn == 0 or yyn == self.table_ninf:
                        return ('error',)
                    return ('reduce', -yyn)
                return ('shift', yyn)
        r = self.defact[state]
        if r == 0:
            return ('error',)
        return ('reduce', r)

    def goto(self, state, lhs):
        i = lhs - self.ntokens
        yyr = self.pgoto[i] + state
        if 0 <= yyr <= self.last and self.check[yyr] == state:
            return self.table[yyr]
        return self.defgoto[i]

    def parse(self, toks, on_reduce=None, on_shift=None):
        """toks: list of terminal symbol numbers (without EOF).  Returns (ok, value).
        callbacks: on_shift(index) -> value, on_reduce(rule, [values], (first token, last token) or None) -> value (may raise Abort)."""
        stack = [(0, None, None)]
        toks = list(toks) + [0]
        i = 0
        steps = 0
        self.reductions = []
        while True:
            steps += 1
            if steps > 100000:
                return False, 'loop'
            state = stack[-1][0]
            if state == self.final:
                return True, stack[-2][1] if len(stack) >= 2 else None
            a = self.action(state, toks[i])
            if a[0] == 'shift':
                v = on_shift(i) if on_shift else ('t', i)
                stack.append((a[1], v, (i, i)))
                i += 1
            elif a[0] == 'reduce':
                r = a[1]
                n = self.r2[r]
                items = stack[len(stack) - n:] if n else []
                vals = [v for _, v, _ in items]
                spans = [sp for _, _, sp in items if sp is not None]
                span = (spans[0][0], spans[-1][1]) if spans else None
                if n:
                    del stack[len(stack) - n:]
                self.reductions.append(r)
                try:
                    v = on_reduce(r, vals, span) if on_reduce else ('r', r, vals)
                except Abort as e:
                    return False, e.args[0] if e.args else 'abort'
                ns = self.goto(stack[-1][0], self.r1[r])
                stack.append((ns, v, span))
            else:
                return False, ('syntax error', i, state)

    # ---- actions from the AST of parse()
    def load_actions(self):
        """rule number -> list of statements in a tiny IR, from the typed AST of the `switch (yyn)` in parse()."""
        if self.actions is not None:
            return self.actions
        f = self.db.fn(P + '::parse')
        sw = None
        for n in f.walk():
            if n['k'] == 'SwitchStmt':
                c = f.strip(f.stmts[n['cond']])
                if c['k'] == 'DeclRefExpr' and c.get('name') == 'yyn':
                    sw = n
        if sw is None:
            raise AnalysisBroken('switch (yyn) not found in RSParserImpl::parse')
        body = f.stmts[sw['body']]
        acts = {}
        cur = None
        items = []
        for c in body['c']:
            st = f.stmts[c]
            labels = []
            while st['k'] in ('CaseStmt', 'DefaultStmt'):
                labels.append('default' if st['k'] == 'DefaultStmt' else st.get('cv'))
                st = f.stmts[st['sub']]
            if labels:
                cur = labels
                for l in labels:
                    acts[l] = []
            if cur is not None:
                for l in cur:
                    acts[l].append(st)
        self.actions_fn = f
        self.actions = {k: v for k, v in acts.items() if k != 'default'}
        return self.actions

    def rule_name(self, r):
        return '%s(%d)' % (self.tname[self.r1[r]], r)


class Abort(Exception):
    pass
