"""E3/TG — the tree grammar of RSLang syntax trees: which node kinds exist, how many children they have and which node kinds can sit at
which child index.  Derived from the source, not from samples of text:

  * the productions are read from the grammar section of RSParserImpl.y and cross-checked against the compiled tables
    (rule count, left-hand sides yyr1_, right-hand-side lengths yyr2_, symbol names yytname_);
  * for every nonterminal a witness fixpoint computes one token-kind sentence per *root kind* the nonterminal can produce
    (a parenthesised operand is a root kind of its own, because Decartian/Enumeration inspect the unstripped node);
  * every production is then exercised with every root-kind witness at every right-hand-side position (the other positions minimal),
    inside a minimal sentential context, through the LR automaton composed with the interpreted semantic actions (AstModel);
  * the relation is recorded at *reduce time* from the subtree each action returns, so a later abort (SemanticCheck, a failing
    Finalize*) cannot hide a node shape: the relation over-approximates the trees the parser can hand out.

Why this is exhaustive for (parent kind, child index, child kind): every semantic action inspects at most the *kind* of its direct
operands (Enumeration, Decartian, RemoveBrackets) or walks a subtree only to accept/reject/relabel it uniformly (TupleDeclaration,
SemanticCheck); the node an action builds is therefore a function of the production and of the root kinds of its operands, one operand
at a time. The fixpoint covers every production x position x root kind.
"""
import re
from .act import AstModel
from .lr import Abort
from ..facts import AnalysisBroken

CARRIERS = ('INTERRUPT', 'NT_ENUM_DECL', 'NT_ARGUMENTS', 'DECART', 'NT_TUPLE')

PAYLOAD = {
    'ID_LOCAL': b'a', 'ID_GLOBAL': b'X1', 'ID_FUNCTION': b'F1', 'ID_PREDICATE': b'P1', 'ID_RADICAL': b'R1', 'LIT_INTEGER': 1,
    'BIGPR': [1], 'SMALLPR': [1], 'FILTER': [1],
}


def parse_y(path):
    """-> [(lhs, [rhs symbols])] in file order (bison numbers them from 1)"""
    src = open(path, encoding='utf-8', errors='replace').read()
    parts = re.split(r'^%%\s*$', src, flags=re.M)
    if len(parts) < 3:
        raise AnalysisBroken('grammar section not found in %s' % path)
    g = parts[1]
    g = re.sub(r'//[^\n]*', '', g)
    out = []
    depth = 0
    buf = []
    for ch in g:                      # drop balanced { ... } action blocks
        if ch == '{':
            depth += 1
        elif ch == '}':
            depth -= 1
        elif depth == 0:
            buf.append(ch)
    g = ''.join(buf)
    for rule in g.split(';'):
        rule = rule.strip()
        if not rule:
            continue
        if ':' not in rule:
            raise AnalysisBroken('grammar rule without colon: %r' % rule[:40])
        lhs, alts = rule.split(':', 1)
        lhs = lhs.strip()
        for alt in alts.split('|'):
            out.append((lhs, alt.split()))
    return out


class TreeGrammar:
    def __init__(self, db, root=None):
        import json, os
        root = root or getattr(db, 'root', '/repo')
        cache = os.path.join(os.path.dirname(os.path.dirname(os.path.dirname(os.path.abspath(__file__)))), 'build', 'treegrammar')
        path = os.path.join(cache, '%s.json' % db.key[:24])
        if os.path.exists(path):
            try:
                d = json.load(open(path))
                self.arity = {k: set(v) for k, v in d['arity'].items()}
                self.child = {(k.rsplit('@', 1)[0], int(k.rsplit('@', 1)[1])): set(v) for k, v in d['child'].items()}
                self.roots = set(d['roots'])
                self.stats = d['stats']
                self.witness = {tuple(k.split('@')[:1] + [int(k.split('@')[1])] + k.split('@')[2:]): v for k, v in d['witness'].items()}
                self.term = d['term']
                return
            except Exception:
                pass
        self._build(db, root)
        os.makedirs(cache, exist_ok=True)
        tmp = path + '.%d.tmp' % os.getpid()
        json.dump({'arity': {k: sorted(v) for k, v in self.arity.items()}, 'child': {'%s@%d' % k: sorted(v) for k, v in self.child.items()},
                   'roots': sorted(self.roots), 'stats': self.stats, 'term': self.term, 'witness': {'%s@%d@%s' % k: v for k, v in self.witness.items()}}, open(tmp, 'w'))
        os.replace(tmp, path)
        for old in sorted(os.listdir(cache), key=lambda f: os.path.getmtime(os.path.join(cache, f)))[:-30]:
            try:
                os.remove(os.path.join(cache, old))
            except OSError:
                pass

    def _build(self, db, root):
        self.db = db
        self.m = AstModel(db)
        lr = self.lr = self.m.lr
        self.prods = parse_y(root + '/ccl/rslang/src/RSParserImpl.y')
        if len(self.prods) + 2 != lr.nrules:
            raise AnalysisBroken('RSParserImpl.y has %d productions, the compiled tables have %d' % (len(self.prods), lr.nrules - 2))
        for i, (lhs, rhs) in enumerate(self.prods):
            r = i + 2
            if lr.tname[lr.r1[r]] != lhs or lr.r2[r] != len(rhs):
                raise AnalysisBroken('production %d of RSParserImpl.y (%s: %s) does not match the compiled tables (%s, length %d)' % (
                    r, lhs, ' '.join(rhs), lr.tname[lr.r1[r]], lr.r2[r]))
        self.nts = {lhs for lhs, _ in self.prods}
        # terminal name -> TokenID name
        tokname = self.m.tokname
        self.term = {}
        for tv, sym in enumerate(lr.translate):
            if sym > 2 and tv in tokname:
                self.term[lr.tname[sym]] = tokname[tv]
        self.start = self.prods[0][0]
        # token-class nonterminals: every alternative is one bare terminal (binary_predicate, text_function, quantifier, ...): the node
        # kind of the construct comes from them, so they are expanded as a cartesian factor, not one at a time
        by_lhs = {}
        for lhs, rhs in self.prods:
            by_lhs.setdefault(lhs, []).append(rhs)
        self.tokclass = {n: [a[0] for a in alts if a[0] != 'error'] for n, alts in by_lhs.items() if all(len(a) == 1 and a[0] not in self.nts for a in alts)}
        self._minimal()
        self._contexts()
        self.stats = {'productions': len(self.prods), 'sentences': 0, 'parsed': 0, 'aborted': 0, 'syntax_errors': 0}
        self.arity = {}      # kind -> set of child counts
        self.child = {}      # (kind, index) -> set of kinds ; (kind, -1) -> last child
        self.roots = set()   # kinds of whole trees
        self.witness = {}    # (kind, index, child kind) -> sentence text
        self._fixpoint()

    # ------------------------------------------------------------------ sentences
    def tok(self, t):
        name = self.term[t]
        return (name, PAYLOAD.get(name), 1)

    def _minimal(self):
        INF = 10 ** 9
        best = {n: (INF, None) for n in self.nts}
        changed = True
        while changed:
            changed = False
            for lhs, rhs in self.prods:
                if 'error' in rhs:
                    continue
                tot, seq = 0, []
                for s in rhs:
                    if s in self.nts:
                        if best[s][1] is None:
                            tot = INF
                            break
                        tot += best[s][0]
                        seq += best[s][1]
                    else:
                        tot += 1
                        seq.append(s)
                # equal length: prefer bound-variable leaves, so that minimal tuples are accepted as declarations (TupleDeclaration needs every leaf local)
                better = tot < best[lhs][0] or (tot == best[lhs][0] and tot < INF and seq.count('LOCAL') > best[lhs][1].count('LOCAL'))
                if better:
                    best[lhs] = (tot, seq)
                    changed = True
        self.minimal = {n: v[1] for n, v in best.items()}
        missing = [n for n, v in self.minimal.items() if v is None]
        if missing:
            raise AnalysisBroken('nonterminals without a terminal derivation: %s' % missing)

    def _contexts(self):
        """shortest (prefix, suffix) of terminals such that start =>* prefix N suffix"""
        ctx = {self.start: ([], [])}
        changed = True
        while changed:
            changed = False
            for lhs, rhs in self.prods:
                if 'error' in rhs or lhs not in ctx:
                    continue
                pre0, suf0 = ctx[lhs]
                for i, s in enumerate(rhs):
                    if s not in self.nts:
                        continue
                    pre = pre0 + [t for x in rhs[:i] for t in (self.minimal[x] if x in self.nts else [x])]
                    suf = [t for x in rhs[i + 1:] for t in (self.minimal[x] if x in self.nts else [x])] + suf0
                    if s not in ctx or len(pre) + len(suf) < len(ctx[s][0]) + len(ctx[s][1]):
                        ctx[s] = (pre, suf)
                        changed = True
        self.ctx = ctx

    # ------------------------------------------------------------------ recording
    def _strip(self, node):
        while node['token']['id'] == self.m.tokid['PUNC_PL'] and node['children']:
            node = node['children'][0]
        return node

    def _kind(self, node):
        return self.m.tokname.get(node['token']['id'], node['token']['id'])

    def _rootkey(self, node):
        if node is None or not hasattr(node, 'get') or 'token' not in node:
            return None
        if node['token']['id'] == self.m.tokid['PUNC_PL'] and node['children']:
            return 'PL:' + self._kind(self._strip(node))
        k = self._kind(node)
        if k in CARRIERS:
            # the children of these nodes are spliced into the node the parent action builds (ReplaceBrackets, FunctionCall, FilterCall,
            # Imperative, Enumeration, Decartian): their child kinds are part of what the parent sees
            # One witness per (length <= 3, position, kind at that position) with the other elements alike: each-choice over list elements.
            kinds = [self._kind(self._strip(c)) for c in node['children']]
            if len(kinds) > 2 + (1 if k == 'NT_IMPERATIVE_EXPR' else 0):
                return None          # longer lists repeat the production of the second element (left-recursive list rules)
            common = max(sorted(set(kinds)), key=lambda x: (kinds.count(x), x == 'ID_LOCAL', x == 'IN')) if kinds else None
            odd = [(i, x) for i, x in enumerate(kinds) if x != common]
            if len(odd) > 1:
                return None
            return '%s[%d;%s;%s]' % (k, len(kinds), common, '%d:%s' % odd[0] if odd else '')
        return k

    def _record(self, node, text, seen=None):
        node = self._strip(node)
        k = self._kind(node)
        kids = [self._strip(c) for c in node['children']]
        self.arity.setdefault(k, set()).add(len(kids))
        for i, c in enumerate(kids):
            ck = self._kind(c)
            if ck == 'NT_FUNC_CALL' and c['children']:
                # a call is a term-function call or a predicate call depending on the token of its first child (setexpr vs logic position)
                ck += ':P' if self._kind(self._strip(c['children'][0])) == 'ID_PREDICATE' else ':F'
            for key in ((k, i), (k, i - len(kids))):
                s = self.child.setdefault(key, set())
                if ck not in s:
                    s.add(ck)
                    self.witness[(key[0], key[1], ck)] = text
            self._record(c, text)

    def _run(self, toks, target_rule, span_len, span_start, text):
        """parse; returns the root key of the value reduced by target_rule over the given token span (or None)"""
        m = self.m
        found = {}
        orig = m.build

        lr = self.lr
        kinds = [lr.terminal_of_token(m.tokid[name]) for name, _, _ in toks]
        m.errors = []
        from ..evalmini import Obj
        state = Obj(parsedTree=None, countCriticalErrors=0, currentPosition=0, __kind__='state')
        f = lr.actions_fn

        def on_shift(i):
            if i >= len(toks):
                return None
            name, data, width = toks[i]
            tk = Obj(id=m.tokid[name], pos=Obj(start=10 * i, finish=10 * i + width), data=data)
            return Obj(token=tk, children=[], __kind__='node')

        def on_reduce(r, vals, span):
            default = vals[0] if vals else None
            acts = lr.actions.get(r)
            res = default
            if acts:
                lhs = Obj(value=default)
                stack = Obj(items=[Obj(value=v) for v in reversed(vals)], __kind__='stack')
                env = {'yylhs': lhs, 'yystack_': stack, 'state': state, 'this': Obj(yystack_=stack, state=state)}
                it = m._interp()
                from ..evalmini import Goto
                try:
                    for st in acts:
                        if st['k'] == 'BreakStmt':
                            break
                        it.exec(f, st, env)
                except Goto as g:
                    if g.label == 'yyabortlab':
                        raise Abort(('YYABORT', r))
                    raise
                except Exception as e:
                    if e.__class__.__name__ != '_Break':
                        raise
                res = lhs['value']
            if isinstance(res, Obj) and 'token' in res:
                if acts and r in m.assigning_rules():
                    self._record(res, text)     # a node is complete once the action that builds or extends it has run
                if r == target_rule and span is not None and span[0] == span_start and span[1] - span[0] + 1 == span_len:
                    found['key'] = self._rootkey(res)
                    found['node'] = res
            return res
        ok, v = lr.parse(kinds, on_reduce=on_reduce, on_shift=on_shift)
        self.stats['sentences'] += 1
        if ok:
            self.stats['parsed'] += 1
            tree = state.get('parsedTree')
            if tree is not None:
                root = tree['root'] if isinstance(tree, Obj) and 'root' in tree else tree
                if isinstance(root, Obj) and 'token' in root:
                    self.roots.add(self._kind(root))
                    self._record(root, text)
        elif isinstance(v, tuple) and v and v[0] == 'YYABORT':
            self.stats['aborted'] += 1
        else:
            self.stats['syntax_errors'] += 1
        return found.get('key')

    # ------------------------------------------------------------------ fixpoint
    def _fixpoint(self):
        W = {n: {} for n in self.nts}      # nonterminal -> {root key: terminal sequence}
        tried = set()
        rounds = 0
        changed = True
        while changed:
            changed = False
            rounds += 1
            if rounds > 20:
                raise AnalysisBroken('tree-grammar witness fixpoint did not converge')
            for idx, (lhs, rhs) in enumerate(self.prods):
                r = idx + 2
                if 'error' in rhs or lhs not in self.ctx:
                    continue
                import itertools
                cls_pos = [i for i, s in enumerate(rhs) if s in self.tokclass]
                nts_pos = [i for i, s in enumerate(rhs) if s in self.nts and s not in self.tokclass]
                bases = []
                for combo in itertools.product(*[self.tokclass[rhs[i]] for i in cls_pos]):
                    v = [None] * len(rhs)
                    for i, t in zip(cls_pos, combo):
                        v[i] = (t, [t])
                    bases.append(v)
                variants = list(bases)
                for i in nts_pos:
                    for key, seq in list(W[rhs[i]].items()):
                        for b in bases:
                            v = list(b)
                            v[i] = (key, seq)
                            variants.append(v)
                for v in variants:
                    sig = (r, tuple((x[0] if x else None) for x in v))
                    if sig in tried:
                        continue
                    tried.add(sig)
                    body = []
                    for i, s in enumerate(rhs):
                        if v[i] is not None:
                            body += v[i][1]
                        elif s in self.nts:
                            body += self.minimal[s]
                        else:
                            body.append(s)
                    pre, suf = self.ctx[lhs]
                    terms = pre + body + suf
                    toks = [self.tok(t) for t in terms]
                    text = ' '.join(terms)
                    key = self._run(toks, r, len(body), len(pre), text)
                    if key is not None and key not in W[lhs]:
                        W[lhs][key] = body
                        changed = True
        self.W = W
        self.stats['rounds'] = rounds
        self.stats['root_kinds'] = {n: len(v) for n, v in W.items()}

    # ------------------------------------------------------------------ queries
    def sentences(self):
        """the distinct witness sentences as token lists [(TokenID name, payload, width)]"""
        out = []
        for text in sorted(set(self.witness.values())):
            out.append((text, [(self.term[t], PAYLOAD.get(self.term[t]), 1) for t in text.split()]))
        return out

    def kinds(self):
        return set(self.arity)

    def min_arity(self, kind):
        return min(self.arity[kind]) if kind in self.arity else None

    def children_at(self, kind, index):
        """kinds possible at child `index` (negative: from the end). Lists longer than the recorded ones repeat the production of their
        second element, so an index beyond the recorded range of a variable-arity kind answers with the last recorded index."""
        if (kind, index) in self.child:
            return self.child[(kind, index)]
        if kind in self.arity and len(self.arity[kind]) > 1 and index >= 0:
            rec = [i for (k, i) in self.child if k == kind and i >= 0]
            if rec:
                return self.child[(kind, max(rec))]
        return set()

    def variable_arity(self, kind):
        return kind in self.arity and len(self.arity[kind]) > 1
