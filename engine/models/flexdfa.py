"""E3/DFA — the direct-coded DFA of a RE/flex `--fast` lexer, read from the typed AST of `reflex_code_INITIAL`
(labels, FSM_TAKE, FSM_CHAR, conditional gotos, FSM_HALT) and the rule -> TokenID map from the `switch (matcher().scan())`
of `lex()`.  The model answers: which rule matches at a byte position (longest match, generator-resolved priority)."""
from ..facts import AnalysisBroken


class FlexDFA:
    def __init__(self, db, namespace, lexer_class):
        self.db = db
        self.ns = namespace
        code = [f for f in db.functions if f.name == namespace + '::reflex_code_INITIAL']
        if not code:
            raise AnalysisBroken('lexer DFA %s::reflex_code_INITIAL not found' % namespace)
        self.fn = code[0]
        self.states = {}     # label -> {'take': k or None, 'trans': [(lo, hi, target)]}
        self.start = None
        self._parse()
        self.rule_token = {}
        self.rule_action = {}
        self._parse_lex(lexer_class)

    def _parse(self):
        f = self.fn
        body = f.stmts[f.body]
        cur = None
        for cid in body['c']:
            st = f.stmts[cid]
            while st['k'] == 'LabelStmt':
                cur = st['label']
                if self.start is None:
                    self.start = cur
                self.states[cur] = {'take': None, 'trans': [], 'halt': False}
                st = f.stmts[st['c'][0]]
            if cur is None:
                continue   # int c = 0; m.FSM_INIT(c);
            self._stmt(cur, st)
        if not self.states:
            raise AnalysisBroken('no DFA states recognised in %s' % f.name)

    def _stmt(self, cur, st):
        f = self.fn
        k = st['k']
        s = self.states[cur]
        if k == 'CXXMemberCallExpr':
            name = (st.get('cs') or '').split('::')[-1]
            if name == 'FSM_TAKE':
                s['take'] = f.strip(f.stmts[st['args'][0]])['cv']
                return
            if name in ('FSM_FIND', 'FSM_INIT'):
                return
            raise AnalysisBroken('lexer DFA: unknown matcher call %s' % name)
        if k == 'BinaryOperator' and st.get('op') == '=':
            return   # c = m.FSM_CHAR();
        if k == 'IfStmt':
            tgt = f.stmts[st['then']]
            if tgt['k'] != 'GotoStmt':
                raise AnalysisBroken('lexer DFA: if without goto')
            lo, hi = self._cond(f.strip(f.stmts[st['cond']]))
            s['trans'].append((lo, hi, tgt['label']))
            return
        if k == 'ReturnStmt':
            s['halt'] = True
            return
        if k in ('DeclStmt', 'NullStmt', 'ExprWithCleanups'):
            return
        raise AnalysisBroken('lexer DFA: statement form %s not recognised' % k)

    def _cond(self, c):
        f = self.fn
        if c['k'] == 'BinaryOperator' and c['op'] == '==':
            v = f.strip(f.children(c)[1])['cv']
            return v, v
        if c['k'] == 'BinaryOperator' and c['op'] == '&&':
            a, b = (f.strip(x) for x in f.children(c))
            lo = f.strip(f.children(a)[0])['cv']
            hi = f.strip(f.children(b)[1])['cv']
            if a['op'] != '<=' or b['op'] != '<=':
                raise AnalysisBroken('lexer DFA: range condition form')
            return lo, hi
        if c['k'] == 'BinaryOperator' and c['op'] == '<=':
            lo = f.strip(f.children(c)[0])['cv']
            return lo, 255
        raise AnalysisBroken('lexer DFA: condition form %s' % c.get('txt'))

    def _parse_lex(self, lexer_class):
        f = self.db.fn(lexer_class + '::lex', pick=lambda x: not x.rec['params'])
        sw = [n for n in f.walk() if n['k'] == 'SwitchStmt']
        if len(sw) != 1:
            raise AnalysisBroken('%s::lex: scan switch not found' % lexer_class)
        body = f.stmts[sw[0]['body']]
        cur = None
        for cid in body['c']:
            st = f.stmts[cid]
            labels = []
            while st['k'] in ('CaseStmt', 'DefaultStmt'):
                labels.append(st.get('cv'))
                st = f.stmts[st['sub']]
            if labels:
                cur = labels
                for l in labels:
                    self.rule_action[l] = 'skip'
            if cur is None:
                continue
            for n in f.walk(st):
                if n['k'] == 'ReturnStmt' and 'value' in n:
                    v = f.strip(f.stmts[n['value']])
                    if v['k'] == 'DeclRefExpr' and v.get('dk') == 'enumerator':
                        for l in cur:
                            if l != 0:
                                self.rule_token[l] = v['name']
                                self.rule_action[l] = 'token'
                elif n['k'] == 'CompoundAssignOperator' and any(m.get('member') == 'lineBase' for m in f.walk(n)):
                    for l in cur:
                        self.rule_action[l] = 'newline'
        self.lex_fn = f

    # ------------------------------------------------------------------ queries
    def match(self, data, pos=0):
        """(rule, length) of the longest match at pos; rule 0 = no rule (jam / end)."""
        state = self.start
        i = pos
        last = (0, 0)
        steps = 0
        while True:
            s = self.states[state]
            if s['take'] is not None:
                last = (s['take'], i - pos)
            c = data[i] if i < len(data) else -1
            nxt = None
            for lo, hi, t in s['trans']:
                if lo <= c <= hi:
                    nxt = t
                    break
            if nxt is None:
                return last
            state = nxt
            i += 1
            steps += 1
            if steps > 100000:
                raise AnalysisBroken('lexer DFA does not halt')

    def tokenize(self, data):
        """[(TokenID name, bytes)] ; whitespace rules skipped; stops at INTERRUPT/jam (returned as last element)."""
        out = []
        pos = 0
        while pos < len(data):
            rule, ln = self.match(data, pos)
            if rule == 0 or ln == 0:
                out.append(('JAM', data[pos:pos + 1]))
                return out
            act = self.rule_action.get(rule, 'skip')
            if act == 'token':
                out.append((self.rule_token[rule], data[pos:pos + ln]))
                if self.rule_token[rule] == 'INTERRUPT':
                    return out
            pos += ln
        return out
