"""Structural keys of expressions/statements: a normal form that ignores parentheses, implicit casts, temporaries and
(optionally) the names of local variables, and resolves local reference aliases (`auto& x = a.b;` -> a.b).
Used by SIBLING rules (mirror functions) and by effect summaries (which container of which object is written)."""

SKIP = ('ImplicitCastExpr', 'ParenExpr', 'ExprWithCleanups', 'MaterializeTemporaryExpr', 'CXXBindTemporaryExpr', 'ConstantExpr',
        'CXXFunctionalCastExpr', 'CXXStaticCastExpr', 'CStyleCastExpr', 'SubstNonTypeTemplateParmExpr')


def local_inits(fn):
    """did -> init node for local variables (incl. references and loop variables)."""
    out = {}
    for n in fn.rec['stmts']:
        if n['k'] == 'DeclStmt':
            for d in n.get('decls', []):
                if 'init' in d and d['init'] in fn.stmts:
                    out[d['did']] = (d, fn.stmts[d['init']])
    return out


class Keyer:
    def __init__(self, fn, resolve_refs=True, alpha=False, member_map=None):
        self.fn = fn
        self.inits = local_inits(fn)
        self.resolve_refs = resolve_refs
        self.alpha = alpha
        self.names = {}
        self.member_map = member_map or {}

    def var(self, n):
        did = n.get('did')
        if self.resolve_refs and did in self.inits:
            d, init = self.inits[did]
            if d.get('ref'):
                return self.key(init)
        name = n.get('name')
        if self.alpha and n.get('dk') in ('local', 'param', 'binding'):
            if did not in self.names:
                self.names[did] = 'v%d' % len(self.names)
            name = self.names[did]
        return ('var', name)

    def key(self, n):
        fn = self.fn
        while n is not None and n['k'] in SKIP and n.get('c'):
            n = fn.stmts[n['c'][0]]
        if n is None:
            return None
        k = n['k']
        if k == 'CXXConstructExpr' and (n.get('copyctor') or n.get('movector')) and len(n.get('args', [])) == 1:
            return self.key(fn.stmts[n['args'][0]])
        if k == 'DeclRefExpr':
            if n.get('dk') == 'enumerator':
                return ('enum', n.get('qn'))
            if n.get('dk') in ('function',):
                return ('fn', n.get('qn'))
            return self.var(n)
        if k == 'MemberExpr':
            m = n.get('member')
            m = self.member_map.get(m, m)
            base = self.key(fn.stmts[n['c'][0]]) if n.get('c') else ('this',)
            return ('.', m, base)
        if k == 'CXXThisExpr':
            return ('this',)
        if k in ('IntegerLiteral', 'CharacterLiteral'):
            return ('int', n.get('cv'))
        if k == 'CXXBoolLiteralExpr':
            return ('bool', n.get('bv'))
        if k == 'StringLiteral':
            return ('str', n.get('hex'))
        if k in ('BinaryOperator', 'CompoundAssignOperator', 'UnaryOperator'):
            return (k[0] + 'op', n.get('op'), n.get('postfix', False)) + tuple(self.key(fn.stmts[c]) for c in n['c'])
        if k == 'CXXOperatorCallExpr':
            return ('opcall', n.get('op')) + tuple(self.key(fn.stmts[a]) for a in n.get('args', []))
        if k == 'CXXMemberCallExpr':
            name = (n.get('cs') or '').split('::')[-1]
            if name.startswith('operator ') and not n.get('args') and 'obj' in n:
                return self.key(fn.stmts[n['obj']])   # conversion function (e.g. vector<bool>::reference -> bool)
            name = self.member_map.get(name, name)
            obj = self.key(fn.stmts[n['obj']]) if 'obj' in n else None
            return ('mcall', name, obj) + tuple(self.key(fn.stmts[a]) for a in n.get('args', []))
        if k == 'CallExpr':
            return ('call', n.get('cs') or self.key(fn.stmts[n['calleeexpr']]) if 'calleeexpr' in n else n.get('cs')) + tuple(self.key(fn.stmts[a]) for a in n.get('args', []))
        if k in ('CXXConstructExpr', 'CXXTemporaryObjectExpr') and len(n.get('args', [])) == 1 and '__normal_iterator' in (n.get('cls') or ''):
            return self.key(fn.stmts[n['args'][0]])   # iterator -> const_iterator conversion
        if k in ('CXXConstructExpr', 'CXXTemporaryObjectExpr'):
            return ('ctor', n.get('cls')) + tuple(self.key(fn.stmts[a]) for a in n.get('args', []))
        if k == 'DeclStmt':
            out = []
            for d in n.get('decls', []):
                nm = d['name']
                if self.alpha:
                    if d['did'] not in self.names:
                        self.names[d['did']] = 'v%d' % len(self.names)
                    nm = self.names[d['did']]
                out.append(('decl', nm, self.key(fn.stmts[d['init']]) if 'init' in d and d['init'] in fn.stmts else None))
            return ('declstmt',) + tuple(out)
        # generic: kind + children
        return (k,) + tuple(self.key(fn.stmts[c]) for c in n.get('c', []) if c in fn.stmts)


def first_difference(a, b, path=()):
    """Human-readable first point where two keys differ."""
    if a == b:
        return None
    if not isinstance(a, tuple) or not isinstance(b, tuple) or len(a) != len(b) or (a and b and a[0] != b[0]):
        return (path, a, b)
    for i, (x, y) in enumerate(zip(a, b)):
        d = first_difference(x, y, path + (i,))
        if d is not None:
            return d
    return (path, a, b)


def short(key, limit=90):
    s = repr(key)
    return s if len(s) <= limit else s[:limit] + '…'
