"""Mod-set analysis: which data members of its own object may a member function write (transitively)?

Write events on `this`:
  * assignment / compound assignment / ++ -- whose target is rooted at a field of `this`;
  * a mutating call on a field object: std container/smart-pointer mutators by name, or a repo method whose own mod set is
    non-empty, or an unknown non-const method (conservative);
  * a call on `this` itself contributes the callee's mod set.
Objects reached through a by-value local are other instances and do not count."""

STD_MUTATORS = {'push_back', 'emplace_back', 'emplace', 'insert', 'insert_or_assign', 'try_emplace', 'erase', 'clear', 'pop_back', 'resize', 'assign',
                'swap', 'merge', 'reset', 'release', 'operator=', 'operator+=', 'operator[]', 'append', 'push', 'pop', 'emplace_front', 'push_front',
                'extract', 'splice', 'sort', 'reverse', 'shrink_to_fit', 'operator++', 'operator--', 'str'}
STD_OBSERVERS_NONCONST = {'value', 'has_value', 'at', 'begin', 'end', 'find', 'front', 'back', 'data', 'get', 'operator*', 'operator->', 'operator()', 'lower_bound', 'upper_bound',
                          'equal_range', 'rbegin', 'rend', 'count', 'contains', 'size', 'empty', 'c_str', 'length', 'first', 'second', 'value_or', 'operator bool'}


class ModSets:
    def __init__(self, db):
        self.db = db
        self.memo = {}
        self.inprogress = set()

    def field_root(self, f, node):
        """('this', field, path) if node is rooted at a field of this; ('ptr', class, field) if rooted at a pointer/reference
        parameter or member to another object of a repo class; else None"""
        r = f.root_of(node)
        if r[0] in ('this', 'this-field') and r[-1]:
            return ('this', r[-1][0], r[-1])
        return None

    def direct_events(self, f):
        """[(field, how, node)] of write events on fields of this in function f (not transitive)"""
        out = []
        for n in f.walk():
            k = n['k']
            tgt = None
            how = None
            if k in ('BinaryOperator', 'CompoundAssignOperator') and (n.get('op') == '=' or k == 'CompoundAssignOperator'):
                tgt, how = f.children(n)[0], 'assign'
            elif k == 'UnaryOperator' and n.get('op') in ('++', '--'):
                tgt, how = f.children(n)[0], 'incdec'
            elif k == 'CXXOperatorCallExpr' and n.get('args') and n.get('op') in ('=', '+=', '-=', '++', '--', '<<=', '|=', '&='):
                tgt, how = f.stmts[n['args'][0]], 'assign' if n['op'] == '=' else 'opassign'
            elif k == 'CXXOperatorCallExpr' and n.get('args') and n.get('op') == '[]' and (n.get('cs') or '').startswith(('std::map', 'std::unordered_map')):
                tgt, how = f.stmts[n['args'][0]], 'map[]'
            elif k == 'CXXOperatorCallExpr' and n.get('args') and n.get('op') == '()' and not n.get('constm') and not (n.get('cs') or '').startswith('std::'):
                t = self.db.by_mn.get(n.get('mn') or '')
                if t is None or t.body < 0 or self.mods(t):
                    tgt, how = f.stmts[n['args'][0]], 'call:operator()'
            elif k == 'CXXMemberCallExpr' and 'obj' in n and not n.get('staticm'):
                name = (n.get('cs') or '').split('::')[-1]
                cs = n.get('cs') or ''
                if cs.startswith('std::'):
                    if name in STD_MUTATORS and not n.get('constm'):
                        tgt, how = f.stmts[n['obj']], 'std:' + name
                elif not n.get('constm'):
                    t = self.db.by_mn.get(n.get('mn') or '')
                    obj = f.strip(f.stmts[n['obj']])
                    if obj is not None and obj['k'] == 'CXXThisExpr':
                        continue   # handled as a call on this
                    if t is None or t.body < 0:
                        tgt, how = f.stmts[n['obj']], 'call?:' + name
                    elif self.mods(t):
                        tgt, how = f.stmts[n['obj']], 'call:' + name
            if tgt is None and k in ('CallExpr', 'CXXMemberCallExpr') and n.get('args'):
                # a field handed to a repo function through a non-const lvalue reference parameter (TranslateRS(definition, ...)) is written there
                t = self.db.by_mn.get(n.get('mn') or '')
                if t is None and k == 'CallExpr' and (n.get('cs') or '').startswith('ccl::'):
                    # callee defined in a unit that is not loaded: an lvalue of non-const type passed *directly* (no copy construction,
                    # no const-adding conversion) is bound to a non-const reference
                    for a in n['args']:
                        an = f.stmts[a]
                        if an['k'] in ('MemberExpr', 'DeclRefExpr') and an.get('lv') and 'const' not in an.get('t', ''):
                            r = self.field_root(f, an)
                            if r is not None:
                                out.append((r[1], 'call?:' + (n.get('cs') or '').split('::')[-1] + '(&)', n, r[2]))
                if t is not None and not (n.get('cs') or '').startswith('std::'):
                    for i, a in enumerate(n['args']):
                        if i < len(t.rec['params']):
                            pt = t.rec['params'][i]['type'].strip()
                            if pt.endswith('&') and not pt.endswith('&&') and not pt.startswith('const '):
                                r = self.field_root(f, f.stmts[a])
                                if r is not None:
                                    out.append((r[1], 'call:' + (n.get('cs') or '').split('::')[-1] + '(&)', n, r[2]))
            if tgt is None:
                continue
            if how == 'map[]' and self._index_guarded(f, n):
                continue
            r = self.field_root(f, tgt)
            if r is not None:
                out.append((r[1], how, n, r[2]))
        return out

    def _index_guarded(self, f, n):
        """map[key] that cannot insert: dominated by contains(key) on the same map, directly or through a const member whose
        body is `return map.contains(param)`"""
        from .cfgq import dominating_guards, normalise_cond
        pos = f.position_of(n)
        if pos is None:
            return False
        cont = f.root_of(f.stmts[n['args'][0]])
        for c, pol in dominating_guards(f, pos):
            c, pol = normalise_cond(f, c, pol)
            if not pol or c is None or c['k'] != 'CXXMemberCallExpr':
                continue
            name = (c.get('cs') or '').split('::')[-1]
            if name in ('contains', 'count') and 'obj' in c and f.root_of(f.stmts[c['obj']]) == cont:
                return True
            t = self.db.by_mn.get(c.get('mn') or '')
            if t is not None and t.rec.get('const') and t.cls == f.cls:
                inner = [m for m in t.calls() if (m.get('cs') or '').split('::')[-1] in ('contains', 'count') and 'obj' in m]
                if len(inner) == 1 and t.root_of(t.stmts[inner[0]['obj']]) == cont:
                    return True
        return False

    def mods(self, f, _stack=None):
        """set of field names of f's own object that f may write, transitively through calls on this"""
        key = f.mn or f.name
        if key in self.memo:
            return self.memo[key]
        if key in self.inprogress:
            return set()
        self.inprogress.add(key)
        try:
            res = {e[0] for e in self.direct_events(f)}
            for n in f.calls():
                if n['k'] == 'CXXMemberCallExpr' and not n.get('staticm'):
                    obj = f.strip(f.stmts[n['obj']]) if 'obj' in n else None
                    if obj is None or obj['k'] == 'CXXThisExpr':
                        for t in self.db.callees(f, n):
                            res |= self.mods(t)
            for lf in self.db.lambdas_in(f):
                res |= {e[0] for e in self.direct_events(lf)}
        finally:
            self.inprogress.discard(key)
        self.memo[key] = res
        return res

    def reachable_methods(self, entry, cls, limit=4000):
        """member functions of class cls (any instantiation) reachable from entry through the call graph"""
        seen = {}
        stack = [entry]
        while stack and len(seen) < limit:
            f = stack.pop()
            key = (f.name, f.mn)
            if key in seen:
                continue
            seen[key] = f
            for n in f.calls():
                for t in self.db.callees(f, n):
                    stack.append(t)
            for lf in self.db.lambdas_in(f):
                stack.append(lf)
        return [f for f in seen.values() if f.cls == cls or f.name.startswith(cls + '::')]
