"""E4 — finite-domain evaluation of small, loop-free (or boundedly looping), side-effect-light functions.

The extracted typed AST of a function is normalised into a decision procedure and evaluated over a finite
domain that is *complete for the fragment* (enumerators of an enum, truth values, order types of a few
integers).  Used to turn `switch`/`if` tables and comparison-only code into explicit tables that the rules
compare with oracle tables.  Anything outside the recognised statement/expression forms raises OutOfFragment
(reported as ANALYSIS-BROKEN for the dependent rule; never guessed).
"""
from engine.facts import strip_targs


class OutOfFragment(Exception):
    pass


class SignedOverflow(OutOfFragment):
    pass


class _Return(Exception):
    def __init__(self, v):
        self.v = v


class _Break(Exception):
    pass


class _Continue(Exception):
    pass


class Goto(Exception):
    def __init__(self, label):
        self.label = label


class Obj(dict):
    """A struct value: field name -> value."""
    pass


UNKNOWN = object()
NOT_HANDLED = object()


class Interp:
    def __init__(self, db, hooks=None, max_steps=200000, on_call=None):
        self.db = db
        self.hooks = hooks or {}
        self.steps = 0
        self.max_steps = max_steps
        self.on_call = on_call  # on_call(fn, node, callee) -> value or raise OutOfFragment
        self.depth = 0
        self.const_override = None  # {qualified name: value}
        self.max_loop = 10000  # iterations of one loop statement (a harness that feeds large inputs raises it)
        self.on_range = None  # on_range(interp, value) -> list: how a range-for visits a modelled container

    def _char(self, b):
        """an element of a std::string / string_view: plain char, signed on the platforms the library is built for (a client that compares
        characters by order sets signed_char; the default keeps the byte value, which is what equality tests and unsigned casts see)"""
        return b - 256 if getattr(self, 'signed_char', False) and b >= 128 else b

    def set_order(self, o):
        """the order in which an (unordered) set is visited: unspecified in C++, so a client may evaluate under both directions"""
        return sorted(o, reverse=bool(getattr(self, 'reverse_sets', False)))

    def tick(self):
        self.steps += 1
        if self.steps > self.max_steps:
            raise OutOfFragment('step budget exceeded')

    # ------------------------------------------------------------ expressions
    def eval(self, fn, n, env):
        self.tick()
        k = n['k']
        S = fn.stmts
        if k in ('ImplicitCastExpr', 'ParenExpr', 'ExprWithCleanups', 'MaterializeTemporaryExpr', 'CXXBindTemporaryExpr', 'ConstantExpr',
                 'CXXFunctionalCastExpr', 'CXXStaticCastExpr', 'CStyleCastExpr', 'SubstNonTypeTemplateParmExpr', 'CXXRewrittenBinaryOperator'):
            v = self.eval(fn, S[n['c'][0]], env)
            if k in ('CXXStaticCastExpr', 'CStyleCastExpr', 'CXXFunctionalCastExpr', 'ImplicitCastExpr'):
                t = n.get('t', '')
                if isinstance(v, bool) and t not in ('bool',) and n.get('cast') in ('IntegralCast',):
                    return int(v)
                if t == 'bool' and isinstance(v, int) and n.get('cast') in ('IntegralToBoolean',):
                    return bool(v)
                if isinstance(v, int) and not isinstance(v, bool) and n.get('cast') == 'IntegralCast':
                    return _wrap(v, t)
            return v
        if k == 'IntegerLiteral' or k == 'CharacterLiteral':
            return n['cv']
        if k == 'CXXBoolLiteralExpr':
            return bool(n['bv'])
        if k == 'CXXNullPtrLiteralExpr':
            return None
        if k == 'GotoStmt' or k == 'LabelStmt':
            raise OutOfFragment('goto')
        if k == 'StringLiteral':
            return bytes.fromhex(n.get('hex', ''))
        if k == 'DeclRefExpr':
            dk = n.get('dk')
            if dk == 'enumerator':
                return n['val']
            if self.const_override and n.get('qn') in self.const_override:
                return self.const_override[n['qn']]      # a named constant evaluated at a scaled value chosen by the rule
            key = n.get('did') if 'did' in n else n.get('name')
            if key in env:
                return env[key]
            if n.get('name') in env:
                return env[n['name']]
            if n.get('name') == 'npos' and 'basic_string' in (n.get('qn') or n.get('t', '') + 'basic_string'):
                return 2 ** 64 - 1        # size_type(-1); the constant-value field carries it as a signed number
            if 'cv' in n:
                return n['cv']
            if n.get('name') == 'nullopt':
                return None
            if dk in ('staticlocal', 'global', 'staticmember'):
                return self.static_value(fn, n)
            if dk == 'function' and n.get('mn') and self.db.by_mn.get(n['mn']) is not None and self.db.by_mn[n['mn']].body >= 0:
                t_ = self.db.by_mn[n['mn']]
                return ('pyfn', lambda *a_, t_=t_: self.call(t_, list(a_), None))      # a repository function used as a value (a predicate passed to an algorithm)
            raise OutOfFragment('unbound variable %s at %s' % (n.get('name'), fn.loc(n)))
        if k == 'CXXThisExpr':
            if 'this' in env:
                return env['this']
            raise OutOfFragment('this unbound')
        if k == 'MemberExpr' or (k == 'CXXDependentScopeMemberExpr' and n.get('c')):
            base = self.eval(fn, S[n['c'][0]], env) if n.get('c') else env.get('this')
            if isinstance(base, tuple) and len(base) == 2 and base[0] == 'ptr':
                base = base[1]
            if isinstance(base, Obj):
                m = n['member']
                if m in base:
                    return base[m]
                raise OutOfFragment('field %s not modelled at %s' % (m, fn.loc(n)))
            if n.get('mk') == 'method':
                return ('boundmethod', base, n)
            if isinstance(base, tuple) and len(base) == 2 and n.get('member') in ('first', 'second') and isinstance(base[0], tuple) and base[0] and base[0][0] in ('mapit', 'setit', 'it') and isinstance(base[1], bool):
                return base[0] if n['member'] == 'first' else base[1]      # the (iterator, inserted) pair an insertion returns
            raise OutOfFragment('member access %s on non-object at %s' % (n.get('member'), fn.loc(n)))
        if k == 'UnaryOperator':
            op = n['op']
            if op in ('++', '--'):
                tgt = S[n['c'][0]]
                old = self.eval(fn, tgt, env)
                new = old + (1 if op == '++' else -1)
                self.assign(fn, tgt, new, env)
                return old if n.get('postfix') else new
            v = self.eval(fn, S[n['c'][0]], env)
            if op == '!':
                return not v
            if op == '-':
                return -v
            if op == '+':
                return v
            if op == '~':
                return _wrap(~v, n.get('t', ''))
            if op == '*':
                if isinstance(v, tuple) and v and v[0] == 'ptr':
                    return v[1]
                return v  # optional deref
            if op == '&':
                return ('ptr', v)
            raise OutOfFragment('unary %s' % op)
        if k == 'BinaryOperator' or k == 'CompoundAssignOperator':
            op = n['op']
            a, b = S[n['c'][0]], S[n['c'][1]]
            if op == '&&':
                return bool(self.eval(fn, a, env)) and bool(self.eval(fn, b, env))
            if op == '||':
                return bool(self.eval(fn, a, env)) or bool(self.eval(fn, b, env))
            if op == ',':
                self.eval(fn, a, env)
                return self.eval(fn, b, env)
            if op == '=':
                v = self.eval(fn, b, env)
                self.assign(fn, a, v, env)
                return v
            if op.endswith('=') and op not in ('==', '!=', '<=', '>='):
                v = _binop(op[:-1], self.eval(fn, a, env), self.eval(fn, b, env), n.get('t', ''))
                self.assign(fn, a, v, env)
                return v
            return _binop(op, self.eval(fn, a, env), self.eval(fn, b, env), n.get('t', ''))
        if k == 'ConditionalOperator':
            c = self.eval(fn, S[n['cond']], env)
            return self.eval(fn, S[n['then']] if c else S[n['else']], env)
        if k in ('CallExpr', 'CXXMemberCallExpr', 'CXXOperatorCallExpr', 'CXXConstructExpr', 'CXXTemporaryObjectExpr'):
            return self.call_node(fn, n, env)
        if k == 'LambdaExpr':
            lf = self.db.fn(n['lambda'], required=False)
            if lf is None:
                # generic lambda: only the template pattern is in the facts; its body is evaluable when it uses plain member access and operators
                pats = self.db.by_name.get(n['lambda'], [])
                if len(pats) == 1:
                    lf = pats[0]
            if lf is None:
                raise OutOfFragment('lambda body not found')
            return ('lambda', lf, env)
        if k == 'InitListExpr':
            vals = [self.eval(fn, S[c], env) for c in n['c']]
            t = n.get('t', '')
            rec = self.db.records.get(t.replace('const ', '').strip()) if t else None
            if rec is not None and rec.get('fields') and len(vals) <= len(rec['fields']) and not rec.get('methods_ctor'):
                # aggregate initialisation of a repository struct: positional fields, the rest from their default initialisers
                o = Obj()
                o['__cls__'] = t
                for i, fld in enumerate(rec['fields']):
                    if i < len(vals):
                        o[fld['name']] = vals[i]
                    else:
                        initfn = self.db.fn(t + '::' + fld['name'] + '::<init>', required=False)
                        o[fld['name']] = self.eval(initfn, initfn.stmts[initfn.body], {'this': o}) if initfn is not None else UNKNOWN
                return o
            if not vals and ('std::unordered_map<' in t or 'std::map<' in t):
                return {}
            if not vals and ('std::unordered_set<' in t or 'std::set<' in t):
                return set()
            if len(vals) == 1 and not any(x in t for x in ('vector', 'initializer_list', 'array', '[', 'set', 'map')):
                return vals[0]
            if len(vals) == 1 and isinstance(vals[0], list) and t.replace('const ', '').strip().startswith('std::array<'):
                return vals[0]                    # std::array is an aggregate around a built-in array: { {a, b, c} }
            return vals
        if k == 'CXXDefaultArgExpr' or k == 'CXXDefaultInitExpr':
            if 'cv' in n:
                return n['cv']
            return UNKNOWN
        if k == 'CXXStdInitializerListExpr':
            return self.eval(fn, S[n['c'][0]], env)
        if k == 'ArraySubscriptExpr':
            a = self.eval(fn, S[n['c'][0]], env)
            i = self.eval(fn, S[n['c'][1]], env)
            try:
                return a[i]
            except Exception:
                raise OutOfFragment('subscript')
        if k == 'CXXScalarValueInitExpr':
            return 0
        if 'cv' in n:
            return n['cv']
        raise OutOfFragment('expression kind %s at %s' % (k, fn.loc(n)))

    def static_value(self, fn, n):
        """value of a variable with static storage: its initialiser, evaluated once"""
        name = n.get('name')
        cache = self.__dict__.setdefault('_statics', {})
        key = (n.get('qn'), fn.name if n.get('dk') == 'staticlocal' else '')
        if key in cache:
            return cache[key]
        cands = []
        if n.get('dk') == 'staticlocal':
            cands = [g for g in self.db.functions if g.name == '%s::%s::<init>' % (fn.name, name)]
        else:
            cands = [g for g in self.db.functions if g.rec.get('varinit') == n.get('qn')]
        if not cands:
            raise OutOfFragment('static variable %s has no visible initialiser' % name)
        g = cands[0]
        v = self.eval(g, g.stmts[g.body], {})
        cache[key] = v
        return v

    def assign(self, fn, tgt, v, env):
        tgt = fn.strip(tgt)
        if tgt['k'] == 'DeclRefExpr':
            key = tgt.get('did') if tgt.get('did') in env else tgt.get('name')
            env[key] = v
            return
        if tgt['k'] == 'MemberExpr':
            base = self.eval(fn, fn.stmts[tgt['c'][0]], env) if tgt.get('c') else env.get('this')
            if isinstance(base, tuple) and len(base) == 2 and base[0] == 'ptr':
                base = base[1]
            if isinstance(base, Obj):
                base[tgt['member']] = v
                return
        if tgt['k'] in ('CXXMemberCallExpr', 'CXXOperatorCallExpr') and (tgt.get('cs') or '').startswith(('std::unordered_map::', 'std::map::')) and (tgt.get('cs') or '').split('::')[-1] in ('at', 'operator[]'):
            if tgt['k'] == 'CXXMemberCallExpr':
                o = self.eval(fn, fn.stmts[tgt['obj']], env)
                key = self.eval(fn, fn.stmts[tgt['args'][0]], env)
            else:
                o = self.eval(fn, fn.stmts[tgt['args'][0]], env)
                key = self.eval(fn, fn.stmts[tgt['args'][1]], env)
            if isinstance(o, dict) and not isinstance(o, Obj) and (key in o or tgt['cs'].endswith('operator[]')):
                o[key] = v
                return
        if tgt['k'] in ('CXXMemberCallExpr', 'CXXOperatorCallExpr') and (tgt.get('cs') or '').startswith('std::vector::') and (tgt.get('cs') or '').split('::')[-1] in ('at', 'operator[]'):
            if tgt['k'] == 'CXXMemberCallExpr':
                o = self.eval(fn, fn.stmts[tgt['obj']], env)
                i = self.eval(fn, fn.stmts[tgt['args'][0]], env)
            else:
                o = self.eval(fn, fn.stmts[tgt['args'][0]], env)
                i = self.eval(fn, fn.stmts[tgt['args'][1]], env)
            if isinstance(o, list) and isinstance(i, int) and 0 <= i < len(o):
                o[i] = v
                return
            raise OutOfFragment('vector element assignment out of range at %s' % fn.loc(tgt))
        if tgt['k'] == 'UnaryOperator' and tgt.get('op') == '*':
            base = self.eval(fn, fn.stmts[tgt['c'][0]], env)
            if isinstance(base, tuple) and len(base) == 2 and base[0] == 'ptr' and isinstance(base[1], Obj) and 'v' in base[1]:
                base[1]['v'] = v          # a pointer to a value cell modelled as Obj(v=...)
                return
        raise OutOfFragment('assignment target %s' % tgt['k'])

    def call_node(self, fn, n, env):
        callee = n.get('callee')
        S = fn.stmts
        if callee in self.hooks:
            return self.hooks[callee](self, fn, n, env)
        if self.on_call is not None:
            v = self.on_call(self, fn, n, env)
            if v is not NOT_HANDLED:
                return v
        k = n['k']
        if k == 'CXXOperatorCallExpr':
            op = n.get('op')
            args = [S[a] for a in n['args']]
            if op in ('==', '!=', '<', '>', '<=', '>=') and callee and callee.startswith('std::'):
                a, b = self.eval(fn, args[0], env), self.eval(fn, args[1], env)
                if op in ('==', '!=') and isinstance(a, tuple) and isinstance(b, tuple) and len(a) == 3 and len(b) == 3 and a[0] == b[0] and a[0] in ('it', 'rit'):
                    return (a[1] is b[1] and a[2] == b[2]) == (op == '==')
                return _binop(op, a, b, 'bool')
            inrepo = self.db.by_mn.get(n.get('mn') or '')
            if op in ('*', '->') and len(args) == 1 and (inrepo is None or inrepo.body < 0):
                v = self.eval(fn, args[0], env)
                if op in ('*', '->') and isinstance(v, tuple) and len(v) == 3 and v[0] == 'rit':
                    if not (0 <= v[2] < len(v[1])):
                        raise OutOfFragment('dereference of a reverse iterator at position %d of a sequence of length %d at %s' % (v[2], len(v[1]), fn.loc(n)))
                    x = v[1][len(v[1]) - 1 - v[2]]
                    return x if op == '*' else ('ptr', x)
                if op == '*' and isinstance(v, tuple) and len(v) == 3 and v[0] == 'it':
                    if not (0 <= v[2] < len(v[1])):
                        raise OutOfFragment('dereference of an iterator at position %d of a sequence of length %d at %s' % (v[2], len(v[1]), fn.loc(n)))
                    return v[1][v[2]]
                if op == '->' and isinstance(v, tuple) and len(v) == 3 and v[0] == 'mapit':
                    if v[2] not in v[1]:
                        raise OutOfFragment('dereference of a map end iterator at %s' % fn.loc(n))
                    return ('ptr', Obj(first=v[2], second=v[1][v[2]], __mapslot__=(v[1], v[2])))
                if op == '->' and isinstance(v, tuple) and len(v) == 3 and v[0] == 'it':
                    if not (0 <= v[2] < len(v[1])):
                        raise OutOfFragment('dereference of an iterator at position %d of a sequence of length %d at %s' % (v[2], len(v[1]), fn.loc(n)))
                    return ('ptr', v[1][v[2]])
                return v
        if callee and callee.startswith('std::numeric_limits<') and callee.endswith(('::max', '::min', '::lowest')) and not n.get('args'):
            T = callee[len('std::numeric_limits<'):callee.rindex('>')].strip()
            rng = {'int': (-2 ** 31, 2 ** 31 - 1), 'short': (-2 ** 15, 2 ** 15 - 1), 'signed char': (-128, 127), 'char': (-128, 127), 'long': (-2 ** 63, 2 ** 63 - 1), 'long long': (-2 ** 63, 2 ** 63 - 1),
                   'unsigned int': (0, 2 ** 32 - 1), 'unsigned short': (0, 2 ** 16 - 1), 'unsigned char': (0, 255), 'unsigned long': (0, 2 ** 64 - 1), 'unsigned long long': (0, 2 ** 64 - 1)}.get(T)
            if rng is None:
                raise OutOfFragment('numeric_limits of %s at %s' % (T, fn.loc(n)))
            return rng[1] if callee.endswith('::max') else rng[0]
        if callee in ('isdigit', 'std::isdigit', 'isalpha', 'std::isalpha', 'isspace', 'std::isspace', 'isupper', 'std::isupper', 'islower', 'std::islower', 'isalnum', 'std::isalnum') and len(n.get('args', [])) == 1:
            c_ = self.eval(fn, S[n['args'][0]], env)
            if isinstance(c_, int):
                if not (-1 <= c_ <= 255):
                    raise OutOfFragment('%s(%d): argument not representable as unsigned char (undefined behaviour) at %s' % (callee, c_, fn.loc(n)))
                nm = callee.split('::')[-1]
                ch = c_
                r_ = {'isdigit': 48 <= ch <= 57, 'isalpha': 65 <= ch <= 90 or 97 <= ch <= 122, 'isspace': ch in (32, 9, 10, 11, 12, 13), 'isupper': 65 <= ch <= 90,
                      'islower': 97 <= ch <= 122, 'isalnum': 48 <= ch <= 57 or 65 <= ch <= 90 or 97 <= ch <= 122}[nm]
                return int(r_)
        if callee in ('std::max', 'std::min') and len(n['args']) == 2:
            a, b = (self.eval(fn, S[x], env) for x in n['args'])
            return max(a, b) if callee == 'std::max' else min(a, b)
        if callee in ('std::move', 'std::forward', 'std::as_const') and len(n['args']) == 1:
            return self.eval(fn, S[n['args'][0]], env)
        cs_ = n.get('cs') or ''
        if cs_ in ('std::optional::has_value', 'std::optional::operator bool') and 'obj' in n:
            v = self.eval(fn, S[n['obj']], env)
            return v is not None
        if cs_ == 'std::optional::reset' and 'obj' in n:
            self.assign(fn, S[n['obj']], None, env)
            return None
        if cs_ == 'std::optional::emplace' and 'obj' in n and len(n.get('args', [])) == 1:
            v = self.eval(fn, S[n['args'][0]], env)
            self.assign(fn, S[n['obj']], v, env)
            return v
        if cs_ == 'std::optional::value' and 'obj' in n:
            return self.eval(fn, S[n['obj']], env)
        if n['k'] == 'CXXOperatorCallExpr' and cs_ in ('std::optional::operator->', 'std::optional::operator*') and n.get('args'):
            return self.eval(fn, S[n['args'][0]], env)
        if k in ('CXXConstructExpr', 'CXXTemporaryObjectExpr'):
            cls = n.get('cls', '')
            args = n.get('args', [])
            if cls.startswith('std::optional'):
                if not args:
                    return None
                return self.eval(fn, S[args[0]], env)
            if n.get('copyctor') or n.get('movector'):
                v = self.eval(fn, S[args[0]], env)
                if cls.startswith(('std::unique_ptr', 'std::shared_ptr', 'std::__shared_ptr', 'ccl::meta::UniqueCPPtr', 'ccl::meta::PropagateConst', 'std::reference_wrapper')):
                    return v                      # a smart pointer is modelled by its pointee: copying / moving it keeps the pointee's identity
                return Obj(v) if isinstance(v, Obj) else v
        v = self.std_model(fn, n, env)
        if v is not NOT_HANDLED:
            return v
        if k == 'CXXMemberCallExpr' and (cs_ or callee or '').startswith('std::_Bit_reference::operator') and 'obj' in n:
            return bool(self.eval(fn, S[n['obj']], env))          # vector<bool>::reference converts to the stored bit
        if k == 'CXXOperatorCallExpr' and (cs_ or callee or '').startswith('std::_Bit_reference::operator=') and len(n.get('args', [])) == 2:
            v = self.eval(fn, S[n['args'][1]], env)
            self.assign(fn, S[n['args'][0]], bool(v), env)
            return v
        if k in ('CXXConstructExpr', 'CXXTemporaryObjectExpr') and (n.get('cls') or '').startswith('std::function') and len(n.get('args', [])) == 1:
            return self.eval(fn, S[n['args'][0]], env)      # std::function wrapping a lambda: the lambda value itself
        if k == 'CXXOperatorCallExpr' and n.get('op') == '()' and n.get('args'):
            lam = self.eval(fn, S[n['args'][0]], env)
            if isinstance(lam, tuple) and lam and lam[0] in ('lambda', 'pyfn'):
                return self.call_lambda(lam, [self.eval(fn, S[a], env) for a in n['args'][1:]])
        # repo function: interpret
        mn = n.get('mn')
        t = self.db.by_mn.get(mn) if mn else None
        if t is not None and t.body >= 0:
            args = [self.eval(fn, S[a], env) for a in n.get('args', [])]
            this = None
            if k == 'CXXMemberCallExpr' and 'obj' in n:
                this = self.eval(fn, S[n['obj']], env)
            elif k == 'CXXOperatorCallExpr' and t.cls and not t.rec.get('static'):
                this, args = args[0], args[1:]
            elif k in ('CXXConstructExpr', 'CXXTemporaryObjectExpr'):
                this = Obj()
                this['__cls__'] = n.get('cls')
                self.construct(t, this, args)
                return this
            return self.call(t, args, this)
        if callee is None and k == 'CallExpr' and n.get('c') and not n.get('_redispatched'):
            # a member call inside a generic lambda / template pattern: `x.f(args)` is a CallExpr whose callee is a dependent member expression
            ce = fn.strip(S[n['c'][0]])
            if ce is not None and ce['k'] == 'CXXDependentScopeMemberExpr' and ce.get('member') and ce.get('c'):
                n2 = dict(n, k='CXXMemberCallExpr', cs='<dependent>::' + ce['member'], callee='<dependent>::' + ce['member'], obj=ce['c'][0], _redispatched=True)
                return self.call_node(fn, n2, env)
        if callee is None and k == 'CallExpr' and 'calleeexpr' in n:
            # a call of an overloaded free function inside a template pattern (resolved only at instantiation): accepted when the repository
            # has exactly one definition of that name with this number of parameters in the namespace of the enclosing function
            ce = S[n['calleeexpr']]
            if ce.get('k') == 'UnresolvedLookupExpr' and ce.get('name'):
                ns_ = fn.name.split('::lambda@')[0].rsplit('::', 1)[0]
                cands = [g for g in self.db.functions if g.body >= 0 and not g.rec.get('dependent') and g.name.split('::')[-1] == ce['name']
                         and len(g.rec.get('params', [])) == len(n.get('args', [])) and (g.name.rsplit('::', 1)[0] == ns_ or ns_.startswith(g.name.rsplit('::', 1)[0]))]
                if len(cands) == 1:
                    return self.call(cands[0], [self.eval(fn, S[a_], env) for a_ in n.get('args', [])], None)
        raise OutOfFragment('call to %s at %s' % (callee, fn.loc(n)))

    def std_model(self, fn, n, env):
        """std::vector as python list, smart pointers as the pointee, iterators as ('it', list, index)."""
        cs = n.get('cs') or ''
        S = fn.stmts
        k = n['k']
        last = cs.split('::')[-1]
        if k == 'CXXMemberCallExpr' and 'obj' in n and cs.startswith('<dependent>::') and not n.get('_typed'):
            # a member call on a value of deduced type (generic lambda, template): the container model is chosen by the value itself
            o_ = self.eval(fn, S[n['obj']], env)
            while isinstance(o_, tuple) and len(o_) == 2 and o_[0] == 'ptr':
                o_ = o_[1]
            pref = ('std::unordered_set::' if isinstance(o_, (set, frozenset)) else 'std::vector::' if isinstance(o_, list) else
                    'std::unordered_map::' if isinstance(o_, dict) and not isinstance(o_, Obj) else 'std::basic_string::' if isinstance(o_, (bytes, bytearray)) else None)
            if pref is not None:
                return self.std_model(fn, dict(n, cs=pref + last, callee=pref + last, _typed=True), env)
        if k == 'CXXMemberCallExpr' and 'obj' in n and cs.startswith('std::array::') and last in ('at', 'operator[]', 'size') :
            o_ = self.eval(fn, S[n['obj']], env)
            if isinstance(o_, (list, tuple)):
                if last == 'size':
                    return len(o_)
                i_ = self.eval(fn, S[n['args'][0]], env)
                if isinstance(i_, int) and 0 <= i_ < len(o_):
                    return o_[i_]
                raise OutOfFragment('array index %r out of range (size %d) at %s' % (i_, len(o_), fn.loc(n)))
        if k == 'CXXMemberCallExpr' and 'obj' in n and cs.startswith(('std::vector::', 'std::list::', 'std::__cxx11::list::', 'std::__shared_ptr::', 'std::shared_ptr::', 'std::unique_ptr::', 'std::basic_string::', 'std::__cxx11::basic_string::', 'std::basic_string_view::')):
            if cs.startswith(('std::__shared_ptr::', 'std::shared_ptr::', 'std::unique_ptr::')):
                o = self.eval(fn, S[n['obj']], env)
                if last == 'get':
                    return o
                if last == 'operator bool':
                    return o is not None
                return NOT_HANDLED
            o = self.eval(fn, S[n['obj']], env)
            if isinstance(o, tuple) and len(o) == 2 and o[0] == 'ptr':
                o = o[1]                          # it->member(): the iterator's operator-> yields a pointer to the element
            if isinstance(o, (bytes, bytearray)):
                args = n.get('args', [])
                if last in ('size', 'length'):
                    return len(o)
                if last == 'empty':
                    return len(o) == 0
                if last.startswith('operator basic_string_view'):
                    return o                      # a view of the string: the same bytes
                if last == 'clear' and isinstance(o, bytearray) and not args:
                    del o[:]
                    return None
                if last in ('at', 'operator[]') and len(args) == 1:
                    i = self.eval(fn, S[args[0]], env)
                    if isinstance(i, int) and 0 <= i < len(o):
                        return self._char(o[i])
                    if last == 'operator[]' and i == len(o) and 'string_view' not in cs:
                        return 0
                    raise OutOfFragment('string index %r out of range (length %d) at %s' % (i, len(o), fn.loc(n)))
                if last == 'substr':
                    a = [self.eval(fn, S[x], env) for x in args]
                    pos = a[0] if a else 0
                    cnt = a[1] if len(a) > 1 else len(o)
                    if not (0 <= pos <= len(o)):
                        raise OutOfFragment('substr position %r beyond the length %d (std::out_of_range) at %s' % (pos, len(o), fn.loc(n)))
                    return bytes(o[pos:pos + max(cnt, 0)]) if cnt >= 0 else bytes(o[pos:])
                if last == 'compare' and len(args) in (1, 3):
                    a_ = [self.eval(fn, S[x], env) for x in args]
                    lhs = bytes(o) if len(a_) == 1 else bytes(o[a_[0]:a_[0] + a_[1]])
                    rhs = bytes(a_[-1])
                    return (lhs > rhs) - (lhs < rhs)
                if last in ('starts_with', 'ends_with') and len(args) == 1:
                    a0 = self.eval(fn, S[args[0]], env)
                    a0 = bytes([a0]) if isinstance(a0, int) else bytes(a0)
                    return bytes(o).startswith(a0) if last == 'starts_with' else bytes(o).endswith(a0)
                if last == 'replace' and len(args) == 3 and isinstance(o, bytearray):
                    pos, cnt, rep_ = (self.eval(fn, S[x], env) for x in args)
                    if isinstance(pos, int) and isinstance(cnt, int) and isinstance(rep_, (bytes, bytearray)):
                        if not (0 <= pos <= len(o)):
                            raise OutOfFragment('replace position %r beyond the length %d (std::out_of_range) at %s' % (pos, len(o), fn.loc(n)))
                        o[pos:pos + max(cnt, 0)] = bytes(rep_)
                        return o
                if last == 'data' and not args:
                    return ('sptr', bytes(o), 0)
                if last in ('find_first_not_of', 'find_last_not_of', 'find_first_of', 'find_last_of', 'find', 'rfind') and args:
                    a = [self.eval(fn, S[x], env) for x in args]
                    pat = a[0] if isinstance(a[0], (bytes, bytearray)) else bytes([a[0] & 255]) if isinstance(a[0], int) else None
                    if pat is None:
                        raise OutOfFragment('string search argument at %s' % fn.loc(n))
                    NPOS = 2 ** 64 - 1
                    if last in ('find', 'rfind'):
                        i = bytes(o).find(pat, a[1] if len(a) > 1 and last == 'find' else 0) if last == 'find' else bytes(o).rfind(pat)
                        return i if i >= 0 else NPOS
                    idx = range(len(o)) if 'first' in last else range(len(o) - 1, -1, -1)
                    for i in idx:
                        if (o[i] in pat) != ('not' in last):
                            return i
                    return NPOS
                return NOT_HANDLED
            if not isinstance(o, list):
                return NOT_HANDLED
            args = n.get('args', [])
            if last == 'emplace_back' and len(args) == 2 and 'std::pair<' in (n.get('callee') or '').split('::emplace_back')[0]:
                import copy as _copy
                a_, b_ = (self.eval(fn, S[x], env) for x in args)       # pair(first, second) constructed in place: both are copies
                e_ = Obj(first=_copy.deepcopy(a_), second=_copy.deepcopy(b_))
                o.append(e_)
                return e_
            if last == 'emplace_back' and len(args) == 2 and 'basic_string_view' in (n.get('callee') or ''):
                p_, ln = (self.eval(fn, S[x], env) for x in args)       # string_view(pointer, length) constructed in place
                if isinstance(p_, tuple) and p_[0] == 'sptr' and isinstance(ln, int):
                    if not (0 <= p_[2] and ln >= 0 and p_[2] + ln <= len(p_[1])):
                        raise OutOfFragment('string_view [%d,%d) outside a buffer of %d bytes at %s' % (p_[2], p_[2] + ln, len(p_[1]), fn.loc(n)))
                    o.append(bytes(p_[1][p_[2]:p_[2] + ln]))
                    return None
            if last in ('emplace_back', 'push_back') and len(args) == 1:
                v = self.eval(fn, S[args[0]], env)
                o.append(v)
                return v
            if last == 'back':
                return o[-1]
            if last == 'front':
                return o[0]
            if last == 'pop_back':
                o.pop()
                return None
            if last == 'empty':
                return len(o) == 0
            if last == 'size':
                return len(o)
            if last == 'clear':
                del o[:]
                return None
            if last == 'at' and len(args) == 1:
                i = self.eval(fn, S[args[0]], env)
                if not (0 <= i < len(o)):
                    raise OutOfFragment('vector::at(%r) out of range (size %d) at %s' % (i, len(o), fn.loc(n)))
                return o[i]
            if last in ('begin', 'cbegin'):
                return ('it', o, 0)
            if last in ('end', 'cend'):
                return ('it', o, len(o))
            if last in ('rbegin', 'crbegin'):
                return ('rit', o, 0)              # position counted from the back
            if last in ('rend', 'crend'):
                return ('rit', o, len(o))
            if last == 'insert' and len(args) == 2 and cs.startswith(('std::list::', 'std::__cxx11::list::')):
                pos, v = (self.eval(fn, S[x], env) for x in args)
                if isinstance(pos, tuple) and len(pos) == 3 and pos[0] == 'it' and pos[1] is o and 0 <= pos[2] <= len(o):
                    o.insert(pos[2], v)
                    return ('it', o, pos[2])
                raise OutOfFragment('list::insert form at %s' % fn.loc(n))
            if last == 'splice' and len(args) == 3:
                pos, other, what = (self.eval(fn, S[x], env) for x in args)         # std::list::splice(pos, same list, element)
                if other is o and isinstance(pos, tuple) and isinstance(what, tuple) and pos[0] == 'it' and what[0] == 'it' and pos[1] is o and what[1] is o and 0 <= what[2] < len(o) and 0 <= pos[2] <= len(o):
                    if pos[2] in (what[2], what[2] + 1):
                        return None
                    e_ = o.pop(what[2])
                    o.insert(pos[2] - 1 if pos[2] > what[2] else pos[2], e_)
                    return None
                raise OutOfFragment('list::splice form at %s' % fn.loc(n))
            if last == 'insert' and len(args) == 3:
                pos, a, b = (self.eval(fn, S[x], env) for x in args)
                if pos[0] == 'it' and pos[1] is o and a[0] == 'it' and b[0] == 'it' and a[1] is b[1]:
                    o[pos[2]:pos[2]] = list(a[1][a[2]:b[2]])
                    return ('it', o, pos[2])
                raise OutOfFragment('vector::insert form')
            if last == 'reserve' or last == 'shrink_to_fit':
                return None
            if last == 'erase' and len(args) == 1:
                pos = self.eval(fn, S[args[0]], env)
                if isinstance(pos, tuple) and len(pos) == 3 and pos[0] == 'it' and pos[1] is o:
                    if not (0 <= pos[2] < len(o)):
                        raise OutOfFragment('vector::erase(end()) at %s: undefined behaviour' % fn.loc(n))
                    del o[pos[2]]
                    return ('it', o, pos[2])
                raise OutOfFragment('vector::erase form at %s' % fn.loc(n))
            if last == 'erase' and len(args) == 2:
                p0, p1 = (self.eval(fn, S[x], env) for x in args)
                if isinstance(p0, tuple) and isinstance(p1, tuple) and p0[0] == 'it' and p1[0] == 'it' and p0[1] is o and p1[1] is o and 0 <= p0[2] <= p1[2] <= len(o):
                    del o[p0[2]:p1[2]]
                    return ('it', o, p0[2])
                raise OutOfFragment('vector::erase(range) form at %s' % fn.loc(n))
            if last == 'emplace_back' and not args:
                et = (n.get('callee') or '')
                v = set() if 'std::vector<std::unordered_set<' in et or 'std::vector<std::set<' in et else [] if 'std::vector<std::vector<' in et else None
                if v is None:
                    raise OutOfFragment('emplace_back() of an unmodelled element type at %s' % fn.loc(n))
                o.append(v)
                return v
            return NOT_HANDLED
        if k == 'CallExpr' and cs in ('std::rbegin', 'std::rend', 'std::crbegin', 'std::crend') and n.get('args'):
            o = self.eval(fn, S[n['args'][0]], env)
            if isinstance(o, list):
                return ('rit', o, 0 if 'begin' in cs else len(o))
            return NOT_HANDLED
        if k == 'CallExpr' and cs == 'std::reverse' and len(n.get('args', [])) == 2:
            b, e = (self.eval(fn, S[a], env) for a in n['args'])
            if isinstance(b, tuple) and isinstance(e, tuple) and b[0] == 'it' and e[0] == 'it' and b[1] is e[1]:
                b[1][b[2]:e[2]] = b[1][b[2]:e[2]][::-1]
                return None
            raise OutOfFragment('std::reverse form at %s' % fn.loc(n))
        if k == 'CallExpr' and cs == 'std::back_inserter' and n.get('args'):
            o = self.eval(fn, S[n['args'][0]], env)
            if isinstance(o, list):
                return ('backins', o)
            return NOT_HANDLED
        if k == 'CXXOperatorCallExpr' and cs.startswith('std::back_insert_iterator::operator') and n.get('args'):
            tgt = self.eval(fn, S[n['args'][0]], env)
            if isinstance(tgt, tuple) and tgt and tgt[0] == 'backins':
                if n.get('op') == '=' and len(n['args']) == 2:
                    tgt[1].append(self.eval(fn, S[n['args'][1]], env))
                return tgt                               # *it, ++it, it++ are the iterator itself
            return NOT_HANDLED
        if k == 'CallExpr' and cs in ('std::begin', 'std::end', 'std::cbegin', 'std::cend', 'std::size', 'std::ssize', 'std::empty', 'std::next', 'std::prev') and n.get('args'):
            o = self.eval(fn, S[n['args'][0]], env)
            if isinstance(o, (bytes, bytearray)) and cs in ('std::begin', 'std::end', 'std::cbegin', 'std::cend'):
                snaps = self.__dict__.setdefault('_strsnaps', {})
                snap = snaps.get(id(o))
                if snap is None or bytes(snap[0]) != bytes(o):
                    snap = (bytes(o), list(o))
                    snaps[id(o)] = snap
                return ('it', snap[1], 0 if 'begin' in cs else len(snap[1]))
            if isinstance(o, (set, frozenset)) and cs in ('std::begin', 'std::end', 'std::cbegin', 'std::cend'):
                snaps = self.__dict__.setdefault('_setsnaps', {})
                snap = snaps.get(id(o))
                if snap is None or snap[0] != o:
                    snap = (set(o), self.set_order(o))
                    snaps[id(o)] = snap
                return ('it', snap[1], 0 if 'begin' in cs else len(snap[1]))
            if cs in ('std::empty', 'std::size') and isinstance(o, Obj) and o.get('__cls__') and 'elems' not in o:
                m_ = self.db.fn('%s::%s' % (o['__cls__'], cs.split('::')[-1]), required=False)      # std::empty(x) is x.empty() for a class that has one
                if m_ is not None:
                    return self.call(m_, [], o)
            if cs in ('std::next', 'std::prev') and isinstance(o, tuple) and o[0] == 'it':
                d_ = self.eval(fn, S[n['args'][1]], env) if len(n['args']) > 1 else 1
                p_ = o[2] + (d_ if cs == 'std::next' else -d_)
                if not (0 <= p_ <= len(o[1])):
                    raise OutOfFragment('%s moves an iterator to position %d of a sequence of length %d (undefined behaviour) at %s' % (cs, p_, len(o[1]), fn.loc(n)))
                return ('it', o[1], p_)
            if isinstance(o, (bytes, bytearray, dict, set)) and not isinstance(o, Obj) and cs in ('std::size', 'std::ssize', 'std::empty'):
                return len(o) == 0 if cs == 'std::empty' else len(o)
            if isinstance(o, dict) and not isinstance(o, Obj) and cs in ('std::begin', 'std::end', 'std::cbegin', 'std::cend'):
                # iteration over a map: a snapshot list of (first, second) entries shared by begin() and end()
                snaps = self.__dict__.setdefault('_mapsnaps', {})
                snap = snaps.get(id(o))
                if snap is None or len(snap) != len(o) or any(e['first'] not in o for e in snap):
                    snap = [Obj(first=k_, second=v_) for k_, v_ in o.items()]
                    snaps[id(o)] = snap
                return ('it', snap, 0 if 'begin' in cs else len(snap))
            if isinstance(o, list):
                return {'std::begin': ('it', o, 0), 'std::cbegin': ('it', o, 0), 'std::end': ('it', o, len(o)), 'std::cend': ('it', o, len(o)),
                        'std::size': len(o), 'std::ssize': len(o), 'std::empty': len(o) == 0}[cs]
            return NOT_HANDLED
        if k == 'CallExpr' and cs == 'std::get' and len(n.get('args', [])) == 1 and n.get('targs') and '::' in str(n['targs'][0]):
            o = self.eval(fn, S[n['args'][0]], env)
            if isinstance(o, Obj) and o.get('__cls__'):
                if strip_targs(o['__cls__']) == strip_targs(str(n['targs'][0])):
                    return o
                raise OutOfFragment('std::get<%s> on a variant that holds %s: throws std::bad_variant_access at %s' % (n['targs'][0], o['__cls__'], fn.loc(n)))
            return NOT_HANDLED
        if k == 'CallExpr' and cs == 'std::is_sorted' and len(n.get('args', [])) in (1, 2):
            a_ = [self.eval(fn, S[a], env) for a in n['args']]
            seq = a_[0] if len(a_) == 1 and isinstance(a_[0], list) else (a_[0][1][a_[0][2]:a_[1][2]] if len(a_) == 2 and all(isinstance(x, tuple) and len(x) == 3 and x[0] == 'it' for x in a_) and a_[0][1] is a_[1][1] else None)
            if seq is None:
                raise OutOfFragment('std::is_sorted form at %s' % fn.loc(n))
            return all(not (seq[i + 1] < seq[i]) for i in range(len(seq) - 1))
        if k == 'CallExpr' and cs == 'std::erase_if' and len(n.get('args', [])) == 2:
            o, lam = (self.eval(fn, S[a], env) for a in n['args'])
            if isinstance(o, list):
                keep = [e_ for e_ in list(o) if not self.call_lambda(lam, [e_])]
                gone = len(o) - len(keep)
                o[:] = keep
                return gone
            raise OutOfFragment('std::erase_if form at %s' % fn.loc(n))
        if k == 'CallExpr' and cs in ('std::find_if', 'std::all_of', 'std::any_of', 'std::none_of', 'std::for_each', 'std::count_if') and len(n.get('args', [])) == 3:
            b, e, lam = (self.eval(fn, S[a], env) for a in n['args'])
            if isinstance(b, Obj) and isinstance(e, Obj) and isinstance(b.get('it'), tuple) and isinstance(e.get('it'), tuple):
                b, e = b['it'], e['it']         # an iterator adaptor over a standard container (ccl ListIterator): the wrapped position
            if isinstance(b, tuple) and isinstance(e, tuple) and b[0] == 'it' and e[0] == 'it' and b[1] is e[1]:
                hits = 0
                for i in range(b[2], e[2]):
                    r = self.call_lambda(lam, [b[1][i]])
                    if cs == 'std::find_if' and r:
                        return ('it', b[1], i)
                    if cs == 'std::all_of' and not r:
                        return False
                    if cs == 'std::any_of' and r:
                        return True
                    if cs == 'std::none_of' and r:
                        return False
                    hits += 1 if r else 0
                return {'std::find_if': ('it', b[1], e[2]), 'std::all_of': True, 'std::any_of': False, 'std::none_of': True, 'std::for_each': lam, 'std::count_if': hits}[cs]
            raise OutOfFragment('%s form at %s' % (cs, fn.loc(n)))
        if k == 'CXXOperatorCallExpr' and n.get('op') in ('++', '--') and cs.startswith(('__gnu_cxx::__normal_iterator', 'std::reverse_iterator', 'std::_List_const_iterator', 'std::_List_iterator')) and n.get('args'):
            v = self.eval(fn, S[n['args'][0]], env)
            if isinstance(v, tuple) and len(v) == 3 and v[0] in ('it', 'rit'):
                nv = (v[0], v[1], v[2] + (1 if n['op'] == '++' else -1))
                if cs.startswith('std::_List_') and not (0 <= nv[2] <= len(v[1])):
                    raise OutOfFragment('list iterator moved outside [begin, end] (undefined behaviour) at %s' % fn.loc(n))
                self.assign(fn, S[n['args'][0]], nv, env)
                return v if len(n['args']) > 1 else nv      # postfix form carries a dummy int argument
            raise OutOfFragment('iterator increment form at %s' % fn.loc(n))
        if k == 'CXXOperatorCallExpr' and n.get('op') in ('+', '-') and cs.startswith('__gnu_cxx::__normal_iterator') and len(n.get('args', [])) == 2:
            a, b = (self.eval(fn, S[x], env) for x in n['args'])
            if isinstance(a, tuple) and len(a) == 3 and a[0] == 'it' and isinstance(b, int):
                return ('it', a[1], a[2] + (b if n['op'] == '+' else -b))
            raise OutOfFragment('iterator arithmetic form at %s' % fn.loc(n))
        if k == 'CXXOperatorCallExpr' and cs in ('__gnu_cxx::operator==', '__gnu_cxx::operator!=') and len(n.get('args', [])) == 2:
            a, b = (self.eval(fn, S[x], env) for x in n['args'])
            if isinstance(a, tuple) and isinstance(b, tuple) and a[0] == 'it' and b[0] == 'it':
                same = a[1] is b[1] and a[2] == b[2]
                return same == cs.endswith('==')
            raise OutOfFragment('iterator comparison form at %s' % fn.loc(n))
        if k == 'CallExpr' and cs in ('std::minmax_element', 'std::min_element', 'std::max_element') and len(n.get('args', [])) in (2, 3):
            vals = [self.eval(fn, S[a], env) for a in n['args']]
            b, e = vals[0], vals[1]
            if isinstance(b, tuple) and isinstance(e, tuple) and b[0] == 'it' and e[0] == 'it' and b[1] is e[1]:
                less = (lambda x, y: self.call_lambda(vals[2], [x, y])) if len(vals) == 3 else (lambda x, y: x < y)
                lo = hi = b[2] if b[2] < e[2] else e[2]
                for i in range(b[2] + 1, e[2]):
                    if less(b[1][i], b[1][lo]):
                        lo = i                       # first smallest
                    if not less(b[1][i], b[1][hi]):
                        hi = i                       # last largest (minmax_element); max_element wants the first largest
                if cs == 'std::max_element':
                    hi = b[2] if b[2] < e[2] else e[2]
                    for i in range(b[2] + 1, e[2]):
                        if less(b[1][hi], b[1][i]):
                            hi = i
                return {'std::minmax_element': (('it', b[1], lo), ('it', b[1], hi)), 'std::min_element': ('it', b[1], lo), 'std::max_element': ('it', b[1], hi)}[cs]
            raise OutOfFragment('%s form at %s' % (cs, fn.loc(n)))
        if k == 'CallExpr' and cs == 'std::accumulate' and len(n.get('args', [])) in (3, 4):
            vals = [self.eval(fn, S[a], env) for a in n['args']]
            b, e, acc = vals[0], vals[1], vals[2]
            if isinstance(b, tuple) and isinstance(e, tuple) and b[0] == 'it' and e[0] == 'it' and b[1] is e[1]:
                import copy as _copy
                acc = _copy.deepcopy(acc) if isinstance(acc, Obj) else acc
                for i in range(b[2], e[2]):
                    acc = self.call_lambda(vals[3], [acc, b[1][i]]) if len(vals) == 4 else acc + b[1][i]
                return acc
            raise OutOfFragment('std::accumulate form at %s' % fn.loc(n))
        if k == 'CallExpr' and cs == 'std::find' and len(n.get('args', [])) == 3:
            b, e, v = (self.eval(fn, S[a], env) for a in n['args'])
            if isinstance(b, tuple) and isinstance(e, tuple) and b[0] == 'it' and e[0] == 'it' and b[1] is e[1]:
                for i in range(b[2], e[2]):
                    if b[1][i] == v:
                        return ('it', b[1], i)
                return ('it', b[1], e[2])
            raise OutOfFragment('std::find form at %s' % fn.loc(n))
        if k in ('CXXConstructExpr', 'CXXTemporaryObjectExpr') and (n.get('cls') or '').startswith('std::vector'):
            args = [self.eval(fn, S[a], env) for a in n.get('args', [])]
            if not args or args[0] is UNKNOWN:
                return []
            if isinstance(args[0], list):
                return list(args[0])
            if isinstance(args[0], int) and not isinstance(args[0], bool) and len(args) >= 2 and not isinstance(args[1], (list, tuple)):
                return [args[1]] * args[0]          # vector(count, value)
            if isinstance(args[0], int) and not isinstance(args[0], bool) and len(args) == 1:
                return [0] * args[0]
            raise OutOfFragment('std::vector constructor form at %s' % fn.loc(n))
        # ---- strings as python bytes
        if k in ('CXXConstructExpr', 'CXXTemporaryObjectExpr') and (n.get('cls') or '').startswith(('std::basic_string', 'std::__cxx11::basic_string')):
            args = [self.eval(fn, S[a], env) for a in n.get('args', [])]
            args = [a for a in args if a is not UNKNOWN]
            if not args:
                return b''
            if isinstance(args[0], (bytes, bytearray)):
                return bytes(args[0])
            if isinstance(args[0], tuple) and len(args[0]) == 3 and args[0][0] == 'sptr' and len(args) >= 2 and isinstance(args[1], int):
                b, off = args[0][1], args[0][2]
                if not (0 <= off and off + args[1] <= len(b) and args[1] >= 0):
                    raise OutOfFragment('string view [%d, %d) outside a buffer of %d bytes at %s' % (off, off + args[1], len(b), fn.loc(n)))
                return bytes(b[off:off + args[1]])
            if isinstance(args[0], list) and all(isinstance(x, int) for x in args[0]):
                return bytes(x & 255 for x in args[0])                  # initializer_list<char>
            if len(args) == 1 and isinstance(args[0], int) and not isinstance(args[0], bool) and 'initializer_list' in ' '.join(str(S[a].get('t', '')) for a in n.get('args', [])):
                return bytes([args[0] & 255])
            if len(args) == 2 and all(isinstance(x, int) and not isinstance(x, bool) for x in args):
                return bytes([args[1] & 255]) * args[0]                 # string(count, ch)
            raise OutOfFragment('std::string constructor form at %s' % fn.loc(n))
        if k == 'CXXOperatorCallExpr' and n.get('op') == '[]' and cs.startswith(('std::basic_string::', 'std::__cxx11::basic_string::', 'std::basic_string_view::')) and len(n.get('args', [])) == 2:
            o = self.eval(fn, S[n['args'][0]], env)
            i = self.eval(fn, S[n['args'][1]], env)
            if isinstance(o, (bytes, bytearray)) and isinstance(i, int):
                if 0 <= i < len(o):
                    return self._char(o[i])
                raise OutOfFragment('string index %r out of range (length %d) at %s' % (i, len(o), fn.loc(n)))
        if k == 'CXXOperatorCallExpr' and cs.startswith(('std::basic_string::', 'std::__cxx11::basic_string::', 'std::operator+')) and n.get('op') in ('+=', '+', '='):
            a = self.eval(fn, S[n['args'][0]], env)
            b = self.eval(fn, S[n['args'][1]], env)
            if isinstance(b, int) and not isinstance(b, bool):
                b = bytes([b & 255])
            if n['op'] == '=':
                self.assign(fn, S[n['args'][0]], b, env)
                return b
            if isinstance(a, int) and not isinstance(a, bool):
                a = bytes([a & 255])
            if isinstance(a, (bytes, bytearray)) and isinstance(b, (bytes, bytearray)):
                v = bytes(a) + bytes(b)
                if n['op'] == '+=':
                    self.assign(fn, S[n['args'][0]], v, env)
                return v
            raise OutOfFragment('string concatenation of %r and %r' % (type(a), type(b)))
        if k == 'CallExpr' and cs == 'std::to_string' and n.get('args'):
            v = self.eval(fn, S[n['args'][0]], env)
            return str(int(v)).encode()
        # ---- std::stack as a list
        if k in ('CXXConstructExpr', 'CXXTemporaryObjectExpr') and (n.get('cls') or '').startswith('std::stack') and not n.get('args'):
            return []
        if k == 'CXXMemberCallExpr' and 'obj' in n and cs.startswith('std::stack::'):
            o = self.eval(fn, S[n['obj']], env)
            if isinstance(o, list):
                a = [self.eval(fn, S[x], env) for x in n.get('args', [])]
                if last in ('push', 'emplace'):
                    o.append((list(a[0]) if isinstance(a[0], list) else a[0]) if a else [])
                    return None
                if last == 'top':
                    if not o:
                        raise OutOfFragment('top() of an empty stack at %s' % fn.loc(n))
                    return o[-1]
                if last == 'pop':
                    if not o:
                        raise OutOfFragment('pop() of an empty stack at %s' % fn.loc(n))
                    o.pop()
                    return None
                if last == 'empty':
                    return not o
                if last == 'size':
                    return len(o)
        # ---- sets / pairs
        if k in ('CXXConstructExpr', 'CXXTemporaryObjectExpr') and (n.get('cls') or '').startswith(('std::unordered_set', 'std::set')):
            args = [self.eval(fn, S[a], env) for a in n.get('args', [])]
            args = [a for a in args if a is not UNKNOWN]
            if not args:
                return set()
            if isinstance(args[0], list):
                return set(tuple(x) if isinstance(x, list) else x for x in args[0])
            raise OutOfFragment('set constructor form')
        if k in ('CXXConstructExpr', 'CXXTemporaryObjectExpr') and (n.get('cls') or '').startswith('std::pair'):
            args = [self.eval(fn, S[a], env) for a in n.get('args', [])]
            if len(args) == 1 and isinstance(args[0], tuple):
                return args[0]
            return tuple(args)
        if k == 'CXXMemberCallExpr' and 'obj' in n and cs.startswith(('std::unordered_set::', 'std::set::')) and last in ('reserve', 'rehash'):
            return None
        if k == 'CXXMemberCallExpr' and 'obj' in n and cs.startswith(('std::unordered_set::', 'std::set::')) and last in ('insert', 'emplace', 'erase', 'size', 'empty', 'clear', 'merge'):
            o = self.eval(fn, S[n['obj']], env)
            if isinstance(o, set):
                args = [self.eval(fn, S[a], env) for a in n.get('args', [])]
                if last == 'insert' and len(args) == 2 and all(isinstance(a_, tuple) and len(a_) == 3 and a_[0] == 'it' for a_ in args) and args[0][1] is args[1][1]:
                    o.update(args[0][1][args[0][2]:args[1][2]])          # insert(first, last)
                    return None
                if last in ('insert', 'emplace') and len(args) == 1:
                    x = tuple(args[0]) if isinstance(args[0], list) else args[0]
                    isnew = x not in o
                    o.add(x)
                    return (('setit', o, x), isnew)
                if last == 'erase' and len(args) == 1:
                    had = args[0] in o
                    o.discard(args[0])
                    return int(had)
                if last == 'merge' and len(args) == 1 and isinstance(args[0], (set, frozenset, list)):
                    src_ = args[0]
                    moved = [x for x in src_ if x not in o]          # merge splices the elements that are not present yet out of the source
                    o.update(moved)
                    if isinstance(src_, set):
                        src_.difference_update(moved)
                    return None
                if last == 'size':
                    return len(o)
                if last == 'empty':
                    return not o
                if last == 'clear':
                    o.clear()
                    return None
        if k == 'CXXMemberCallExpr' and 'obj' in n and cs.startswith(('std::unordered_set::', 'std::set::')) and last in ('contains', 'count') and len(n.get('args', [])) == 1:
            o = self.eval(fn, S[n['obj']], env)
            x = self.eval(fn, S[n['args'][0]], env)
            if isinstance(x, list):
                x = tuple(x)
            if isinstance(o, (set, frozenset)):
                return (x in o) if last == 'contains' else int(x in o)
        if k in ('CXXConstructExpr', 'CXXTemporaryObjectExpr') and (n.get('cls') or '').startswith(('std::unordered_map', 'std::map')) and not n.get('args'):
            return {}
        if k in ('CXXConstructExpr', 'CXXTemporaryObjectExpr') and (n.get('cls') or '').startswith(('std::unordered_map', 'std::map')) and n.get('args'):
            a0 = self.eval(fn, S[n['args'][0]], env)
            if isinstance(a0, dict) and not isinstance(a0, Obj):
                return dict(a0)
            if isinstance(a0, (list, tuple)) and all(isinstance(x, (list, tuple)) and len(x) == 2 for x in a0):
                return {(bytes(x[0]) if isinstance(x[0], (bytes, bytearray)) else x[0]): x[1] for x in a0}      # initializer list of pairs
            if isinstance(a0, (list, tuple)) and len(a0) == 2 and not isinstance(a0[0], (list, tuple)):
                return {(bytes(a0[0]) if isinstance(a0[0], (bytes, bytearray)) else a0[0]): a0[1]}                 # a single pair, braces elided by the AST
            raise OutOfFragment('map constructor form at %s' % fn.loc(n))
        if k in ('CXXMemberCallExpr', 'CXXOperatorCallExpr') and cs.startswith(('std::unordered_map::', 'std::map::')):
            # maps as plain python dicts (keys: bytes / ints / tuples)
            if k == 'CXXMemberCallExpr' and 'obj' in n:
                o = self.eval(fn, S[n['obj']], env)
                args = [self.eval(fn, S[a], env) for a in n.get('args', [])]
            else:
                vals = [self.eval(fn, S[a], env) for a in n.get('args', [])]
                o, args = (vals[0], vals[1:]) if vals else (None, [])
            if isinstance(o, dict) and not isinstance(o, Obj):
                if last in ('contains', 'count') and len(args) == 1:
                    return (args[0] in o) if last == 'contains' else int(args[0] in o)
                if last in ('size',):
                    return len(o)
                if last in ('reserve', 'rehash'):
                    return None
                if last == 'empty':
                    return not o
                if last == 'at' and len(args) == 1:
                    if args[0] not in o:
                        raise OutOfFragment('map::at on a missing key at %s' % fn.loc(n))
                    return o[args[0]]
                if last == 'operator[]' and len(args) == 1:
                    if args[0] not in o:
                        raise OutOfFragment('map::operator[] inserting a default value at %s' % fn.loc(n))
                    return o[args[0]]
                if last in ('insert', 'emplace', 'try_emplace', 'insert_or_assign'):
                    kv = args[0] if len(args) == 1 else args
                    if isinstance(kv, (list, tuple)) and len(kv) == 2:
                        key, val = kv
                        isnew = key not in o
                        if isnew or last == 'insert_or_assign':
                            o[key] = val
                        return (('mapit', o, key), isnew)
                if last in ('find', 'begin', 'end', 'cbegin', 'cend'):
                    snaps = self.__dict__.setdefault('_mapsnaps', {})
                    snap = snaps.get(id(o))
                    if snap is None or len(snap) != len(o) or any(e['first'] not in o for e in snap):
                        snap = [Obj(first=k_, second=v_) for k_, v_ in o.items()]
                        snaps[id(o)] = snap
                    if last == 'find':
                        for i_, e_ in enumerate(snap):
                            if e_['first'] == args[0]:
                                e_['second'] = o[args[0]]
                                return ('it', snap, i_)
                        return ('it', snap, len(snap))
                    return ('it', snap, 0 if 'begin' in last else len(snap))
                if last == 'erase' and len(args) == 1 and not isinstance(args[0], tuple):
                    return 1 if o.pop(args[0], None) is not None else 0
                if last == 'clear':
                    o.clear()
                    return None
                raise OutOfFragment('map operation %s at %s' % (last, fn.loc(n)))
        if k == 'CXXOperatorCallExpr' and n.get('op') == '=' and cs.startswith(('std::__detail::_Node_iterator', 'std::_Rb_tree_iterator', 'std::_Rb_tree_const_iterator', '__gnu_cxx::__normal_iterator', 'std::_List_iterator')) and len(n.get('args', [])) == 2:
            v = self.eval(fn, S[n['args'][1]], env)       # an iterator variable is reassigned
            if isinstance(v, tuple):
                self.assign(fn, S[n['args'][0]], v, env)
                return v
        if k == 'CXXOperatorCallExpr' and n.get('op') == '=' and cs.startswith(('std::unordered_set::', 'std::set::')) and len(n.get('args', [])) == 2:
            v = self.eval(fn, S[n['args'][1]], env)
            if isinstance(v, (set, frozenset)):
                v = set(v)
                self.assign(fn, S[n['args'][0]], v, env)
                return v
        if k == 'CXXOperatorCallExpr' and n.get('op') == '=' and cs.startswith(('std::optional::', 'std::variant::')) and len(n.get('args', [])) == 2:
            v = self.eval(fn, S[n['args'][1]], env)       # optionals and variants are modelled by their content
            self.assign(fn, S[n['args'][0]], v, env)
            return v
        if cs.startswith('ccl::meta::PropagateConst::'):
            # smart-pointer wrapper: modelled as the pointee
            if k in ('CXXConstructExpr', 'CXXTemporaryObjectExpr'):
                args = [self.eval(fn, S[a], env) for a in n.get('args', [])]
                return args[0] if args and args[0] is not UNKNOWN else None
            if k == 'CXXOperatorCallExpr' and n.get('op') == '=':
                v = self.eval(fn, S[n['args'][1]], env)
                self.assign(fn, S[n['args'][0]], v, env)
                return v
            if k == 'CXXOperatorCallExpr' and n.get('op') in ('*', '->'):
                return self.eval(fn, S[n['args'][0]], env)
            if k == 'CXXOperatorCallExpr' and n.get('op') in ('==', '!='):
                a, b = self.eval(fn, S[n['args'][0]], env), self.eval(fn, S[n['args'][1]], env)
                same = (a is b) or (a is None and b is None)
                return same if n['op'] == '==' else not same
            if k == 'CXXMemberCallExpr' and 'obj' in n and (last == 'get' or last.startswith('operator ')):
                return self.eval(fn, S[n['obj']], env)
        if k in ('CXXConstructExpr', 'CXXTemporaryObjectExpr') and (n.get('cls') or '').startswith(('std::variant', 'std::optional')) and len(n.get('args', [])) <= 1:
            args = [self.eval(fn, S[a], env) for a in n.get('args', [])]
            return args[0] if args else None
        if k in ('CXXConstructExpr', 'CXXTemporaryObjectExpr') and (n.get('cls') or '').startswith(('std::shared_ptr', 'std::unique_ptr')):
            args = [self.eval(fn, S[a], env) for a in n.get('args', [])]
            return args[0] if args else None
        if k in ('CXXConstructExpr', 'CXXTemporaryObjectExpr') and '__normal_iterator' in (n.get('cls') or '') and len(n.get('args', [])) == 1:
            return self.eval(fn, S[n['args'][0]], env)
        if k == 'CXXOperatorCallExpr' and n.get('op') == '=' and len(n.get('args', [])) == 2:
            t = self.db.by_mn.get(n.get('mn') or '')
            if (t is None or t.body < 0) and not cs.startswith('std::'):
                v = self.eval(fn, S[n['args'][1]], env)    # implicit (memberwise) copy/move assignment
                if isinstance(v, Obj):
                    v = Obj(v)
                self.assign(fn, S[n['args'][0]], v, env)
                return v
        if k == 'CXXOperatorCallExpr' and n.get('args'):
            op = n.get('op')
            if op == '[]' and cs.startswith('std::vector::'):
                o = self.eval(fn, S[n['args'][0]], env)
                i = self.eval(fn, S[n['args'][1]], env)
                if isinstance(o, list):
                    return o[i]
            if op == '=' and cs.startswith(('std::vector::', 'std::shared_ptr::', 'std::__shared_ptr::', 'std::unique_ptr::')):
                v = self.eval(fn, S[n['args'][1]], env)
                if isinstance(v, list):
                    v = list(v)
                self.assign(fn, S[n['args'][0]], v, env)
                return v
            if op in ('==', '!=') and cs.startswith(('std::operator', 'std::shared_ptr', 'std::__shared_ptr', 'std::unique_ptr')):
                a, b = self.eval(fn, S[n['args'][0]], env), self.eval(fn, S[n['args'][1]], env)
                same = (a is b) or (a is None and b is None)
                return same if op == '==' else not same
        return NOT_HANDLED

    def default_construct(self, cls):
        """an object of a repository class with every field set by its default member initialiser (implicit default constructor)"""
        rec = self.db.record(cls, required=False)
        if rec is None:
            raise OutOfFragment('record %s not found' % cls)
        this = Obj()
        this['__cls__'] = cls
        for f in rec['fields']:
            initfn = self.db.fn(cls + '::' + f['name'] + '::<init>', required=False)
            if initfn is None:
                raise OutOfFragment('field %s::%s has no default member initialiser' % (cls, f['name']))
            this[f['name']] = self.eval(initfn, initfn.stmts[initfn.body], {'this': this})
        return this

    def construct(self, ctor, this, args):
        env = {'this': this}
        for p, a in zip(ctor.rec['params'], args):
            env[p['did']] = a
            env[p['name']] = a
        # default member initialisers
        rec = self.db.record(ctor.cls, required=False)
        if rec:
            for f in rec['fields']:
                initfn = self.db.fn(ctor.cls + '::' + f['name'] + '::<init>', required=False)
                if initfn is not None:
                    try:
                        this[f['name']] = self.eval(initfn, initfn.stmts[initfn.body], {'this': this})
                    except OutOfFragment:
                        this[f['name']] = UNKNOWN
        for i in ctor.rec.get('inits', []):
            if 'field' in i and 'expr' in i:
                if ctor.stmts[i['expr']]['k'] == 'CXXDefaultInitExpr' and this.get(i['field'], UNKNOWN) is not UNKNOWN:
                    continue                      # the default member initialiser, already evaluated above
                this[i['field']] = self.eval(ctor, ctor.stmts[i['expr']], env)
            elif 'field' not in i and 'base' not in i and 'expr' in i:
                e = ctor.strip(ctor.stmts[i['expr']])
                t = self.db.by_mn.get(e.get('mn') or '')
                if e['k'] in ('CXXConstructExpr', 'CXXTemporaryObjectExpr') and t is not None and t.cls == ctor.cls:
                    self.construct(t, this, [self.eval(ctor, ctor.stmts[a], env) for a in e.get('args', [])])   # delegating constructor
                else:
                    raise OutOfFragment('constructor initialiser form in %s' % ctor.name)
        try:
            if ctor.body >= 0:
                self.exec(ctor, ctor.stmts[ctor.body], env)
        except _Return:
            pass

    def call_lambda(self, lam, args):
        """call a lambda value ('lambda', Fn, defining env): captures are looked up in the defining environment"""
        if lam[0] == 'pyfn':
            return lam[1](*args)                  # a function value supplied by the harness (a translator map, a predicate)
        lf, cenv = lam[1], lam[2] if len(lam) > 2 else {}
        self.depth += 1
        if self.depth > 60:
            raise OutOfFragment('recursion depth')
        env = dict(cenv)
        for p, a in zip(lf.rec['params'], args):
            env[p['did']] = a
            env[p['name']] = a
        try:
            self.exec(lf, lf.stmts[lf.body], env)
            return None
        except _Return as r:
            return r.v
        finally:
            self.depth -= 1

    def call(self, t, args, this=None):
        self.depth += 1
        if self.depth > 40:
            raise OutOfFragment('recursion depth')
        env = {}
        if this is not None:
            env['this'] = this
        for p, a in zip(t.rec['params'], args):
            env[p['did']] = a
            env[p['name']] = a
        try:
            self.exec(t, t.stmts[t.body], env)
            return None
        except _Return as r:
            return r.v
        finally:
            self.depth -= 1

    # ------------------------------------------------------------ statements
    def exec(self, fn, n, env):
        self.tick()
        k = n['k']
        S = fn.stmts
        if k == 'CompoundStmt':
            for c in n['c']:
                self.exec(fn, S[c], env)
            return
        if k == 'ReturnStmt':
            raise _Return(self.eval(fn, S[n['value']], env) if 'value' in n else None)
        if k == 'IfStmt':
            if 'init' in n:
                self.exec(fn, S[n['init']], env)
            if 'condvar' in n:
                self.exec(fn, S[n['condvar']], env)
            if self.eval(fn, S[n['cond']], env):
                self.exec(fn, S[n['then']], env)
            elif 'else' in n:
                self.exec(fn, S[n['else']], env)
            return
        if k == 'DeclStmt':
            for d in n.get('decls', []):
                if 'init' in d:
                    v = self.eval(fn, S[d['init']], env)
                    if isinstance(v, list) and not d.get('ref') and 'vector' in d.get('type', '') and '*' not in d.get('type', ''):
                        v = list(v)          # a vector declared by value is a copy of its initialiser
                else:
                    v = UNKNOWN
                env[d['did']] = v
                env[d['name']] = v
                bs = d.get('bindings', [])
                if bs:
                    # structured binding of a pair/tuple value or of an aggregate (fields in declaration order)
                    if isinstance(v, Obj):
                        parts = [v[kk] for kk in v if not kk.startswith('__')]
                    elif isinstance(v, (tuple, list)):
                        parts = list(v)
                    else:
                        raise OutOfFragment('structured binding of %r at %s' % (type(v), fn.loc(n)))
                    if len(parts) != len(bs):
                        raise OutOfFragment('structured binding arity at %s' % fn.loc(n))
                    for b, pv in zip(bs, parts):
                        env[b['did']] = pv
                        env[b['name']] = pv
            return
        if k == 'SwitchStmt':
            v = self.eval(fn, S[n['cond']], env)
            body = S[n['body']]
            if body['k'] != 'CompoundStmt':
                raise OutOfFragment('switch body')
            items = []
            for c in body['c']:
                labels, st = [], S[c]
                while st['k'] in ('CaseStmt', 'DefaultStmt'):
                    labels.append('default' if st['k'] == 'DefaultStmt' else st.get('cv'))
                    st = S[st['sub']]
                items.append((labels, st))
            idx = None
            for i, (labels, st) in enumerate(items):
                if v in [l for l in labels if l != 'default']:
                    idx = i
                    break
            if idx is None:
                for i, (labels, st) in enumerate(items):
                    if 'default' in labels:
                        idx = i
                        break
            if idx is None:
                return
            try:
                for labels, st in items[idx:]:
                    self.exec(fn, st, env)
            except _Break:
                pass
            return
        if k == 'BreakStmt':
            raise _Break()
        if k == 'ContinueStmt':
            raise _Continue()
        if k == 'NullStmt':
            return
        if k == 'GotoStmt':
            raise Goto(n.get('label'))
        if k == 'ForStmt':
            if 'init' in n:
                self.exec(fn, S[n['init']], env)
            it = 0
            while True:
                if 'cond' in n and not self.eval(fn, S[n['cond']], env):
                    break
                try:
                    self.exec(fn, S[n['body']], env)
                except _Break:
                    break
                except _Continue:
                    pass
                if 'inc' in n:
                    self.eval(fn, S[n['inc']], env)
                it += 1
                if it > self.max_loop:
                    raise OutOfFragment('loop bound')
            return
        if k == 'WhileStmt':
            it = 0
            while self.eval(fn, S[n['cond']], env):
                try:
                    self.exec(fn, S[n['body']], env)
                except _Break:
                    break
                except _Continue:
                    pass
                it += 1
                if it > self.max_loop:
                    raise OutOfFragment('loop bound')
            return
        if k == 'DoStmt':
            it = 0
            while True:
                try:
                    self.exec(fn, S[n['body']], env)
                except _Break:
                    break
                except _Continue:
                    pass
                if not self.eval(fn, S[n['cond']], env):
                    break
                it += 1
                if it > self.max_loop:
                    raise OutOfFragment('loop bound')
            return
        if k == 'CXXForRangeStmt':
            rng = self.eval(fn, S[n['range']], env)
            if self.on_range is not None:
                rng = self.on_range(self, rng)
            if isinstance(rng, Obj) and 'elems' in rng:
                rng = list(rng['elems'])
            if isinstance(rng, (bytes, bytearray)):
                rng = list(rng)
            if isinstance(rng, (set, frozenset)):
                rng = self.set_order(rng)
            if not isinstance(rng, (list, tuple)) and not (isinstance(rng, dict) and not isinstance(rng, Obj)):
                raise OutOfFragment('range-for over non-list')
            lv = S[n['loopvar']]
            d = lv['decls'][0]
            if isinstance(rng, dict) and not isinstance(rng, Obj):
                rng = [Obj(first=k_, second=v_) for k_, v_ in rng.items()]
            for x in rng:
                env[d['did']] = x
                env[d['name']] = x
                bs = d.get('bindings', [])
                if bs:
                    parts = [x[kk] for kk in x if not kk.startswith('__')] if isinstance(x, Obj) else list(x) if isinstance(x, (tuple, list)) else None
                    if parts is None or len(parts) != len(bs):
                        raise OutOfFragment('structured binding in range-for at %s' % fn.loc(n))
                    for b, pv in zip(bs, parts):
                        env[b['did']] = pv
                        env[b['name']] = pv
                try:
                    self.exec(fn, S[n['body']], env)
                except _Break:
                    break
                except _Continue:
                    pass
            return
        if k in ('CaseStmt', 'DefaultStmt'):
            self.exec(fn, S[n['sub']], env)
            return
        if 't' in n or k.endswith('Expr') or k.endswith('Operator'):
            self.eval(fn, n, env)
            return
        raise OutOfFragment('statement kind %s at %s' % (k, fn.loc(n)))


def _wrap(v, t):
    t = t.replace('const ', '').strip()
    bits = {'uint8_t': 8, 'unsigned char': 8, 'uint16_t': 16, 'unsigned short': 16, 'uint32_t': 32, 'unsigned int': 32, 'size_t': 64, 'unsigned long': 64, 'uint64_t': 64, 'std::size_t': 64,
            'char8_t': 8, 'char': -8, 'signed char': -8, 'int8_t': -8, 'int16_t': -16, 'short': -16, 'int': -32, 'int32_t': -32}.get(t)
    if bits is None or not isinstance(v, int) or isinstance(v, bool):
        return v
    if bits > 0:
        return v & ((1 << bits) - 1)
    b = -bits
    v &= (1 << b) - 1
    if v >= (1 << (b - 1)):
        v -= (1 << b)
    return v


def _unsigned(t):
    return t.replace('const ', '').strip() in ('uint8_t', 'unsigned char', 'uint16_t', 'unsigned short', 'uint32_t', 'unsigned int', 'char8_t', 'size_t', 'unsigned long', 'uint64_t', 'std::size_t')


def _binop(op, a, b, t):
    if op in ('+', '-') and isinstance(a, tuple) and len(a) == 3 and a[0] == 'sptr' and isinstance(b, int):
        return ('sptr', a[1], a[2] + (b if op == '+' else -b))
    if op in ('+', '-') and isinstance(a, tuple) and len(a) == 3 and a[0] == 'it' and isinstance(b, int) and not isinstance(b, bool):
        return ('it', a[1], a[2] + (b if op == '+' else -b))
    if op in ('==', '!=') and isinstance(a, tuple) and isinstance(b, tuple) and len(a) == 2 and len(b) == 2 and a[0] == 'ptr' and b[0] == 'ptr':
        return (a[1] is b[1]) == (op == '==')          # addresses: identity of the pointee, not equality of its content
    try:
        if op == '==':
            return a == b
        if op == '!=':
            return a != b
        if op == '<':
            return a < b
        if op == '>':
            return a > b
        if op == '<=':
            return a <= b
        if op == '>=':
            return a >= b
        if op in ('+', '-', '*') and isinstance(a, int) and isinstance(b, int) and _unsigned(t):
            return _wrap(a + b if op == '+' else a - b if op == '-' else a * b, t)       # unsigned arithmetic is modular
        if op in ('+', '-', '*') and isinstance(a, int) and isinstance(b, int) and not isinstance(a, bool) and not isinstance(b, bool) and t.replace('const ', '').strip() in ('int', 'int32_t', 'ccl::object::DataID', 'ccl::object::Size'):
            r = a + b if op == '+' else a - b if op == '-' else a * b
            if not (-2 ** 31 <= r < 2 ** 31):
                raise SignedOverflow('signed overflow in %d %s %d (type %s): undefined behaviour' % (a, op, b, t))
            return r
        if op == '+':
            return a + b
        if op == '-':
            return a - b
        if op == '*':
            return a * b
        if op == '/':
            return int(a / b) if b else 0
        if op == '%':
            return a - b * int(a / b) if b else 0
        if op == '&':
            return int(a) & int(b)
        if op == '|':
            return int(a) | int(b)
        if op == '^':
            return int(a) ^ int(b)
        if op == '<<':
            return _wrap(int(a) << int(b), t)
        if op == '>>':
            return int(a) >> int(b)
    except TypeError:
        raise OutOfFragment('operator %s on %r,%r' % (op, type(a), type(b)))
    raise OutOfFragment('operator ' + op)


# ---------------------------------------------------------------------------------------------------------
# specific summaries

def enum_values(db, name):
    return {e['name']: e['val'] for e in db.enum(name)['enumerators']}


class _FreeValue:
    """A runtime quantity the summary does not model (the parse status of a dependant, ...): every comparison on it is a free boolean that the
    client enumerates both ways."""
    def __init__(self, key, assign, seen):
        self.key, self.assign, self.seen = key, assign, seen

    def _ask(self, what):
        k = '%s %s' % (self.key, what)
        if k not in self.seen:
            self.seen.append(k)
        return self.assign.get(k, True)

    def __eq__(self, o):
        return self._ask('== %s' % (o,))

    def __ne__(self, o):
        return not self._ask('== %s' % (o,))

    def __bool__(self):
        return self._ask('is true')

    __hash__ = None


class _FreeObj(Obj):
    """the unmodelled result of a query about one entity: every field is a _FreeValue"""
    def __init__(self, key, assign, seen):
        super().__init__()
        self._k, self._a, self._s = key, assign, seen

    def __contains__(self, m):
        return True

    def __getitem__(self, m):
        return _FreeValue('%s.%s' % (self._k, m), self._a, self._s)

    def __bool__(self):
        return bool(_FreeValue(self._k, self._a, self._s))

    def __eq__(self, o):
        return _FreeValue(self._k, self._a, self._s) == o

    def __ne__(self, o):
        return _FreeValue(self._k, self._a, self._s) != o

    __hash__ = None


def reset_decision_table(db, f, loop, free=None):
    """C11 r4: for (same?, CstType) -> set of callee names invoked by one iteration of ResetDependants' loop body.
    free: (assignment, seen) -- queries of the core about the dependant that are not part of the vocabulary are free booleans."""
    cst = enum_values(db, 'ccl::semantic::CstType')
    lv = f.stmts[loop['loopvar']]['decls'][0]
    params = f.rec['params']
    if len(params) != 1:
        raise OutOfFragment('ResetDependants signature')
    table = {}
    for same in (False, True):
        for tname, tval in cst.items():
            if tname.endswith('_'):
                continue
            acts = []

            def on_call(interp, fn, n, env, tval=tval, acts=acts):
                callee = n.get('callee') or ''
                if callee == 'ccl::semantic::RSCore::GetRS' or callee == 'ccl::semantic::RSModel::GetRS':
                    return Obj(type=tval)
                if callee in ('ccl::semantic::RSModel::Values', 'ccl::semantic::RSModel::Calculations'):
                    return Obj(__facet__=callee)
                if callee.startswith('ccl::semantic::rsValuesFacet::') or callee.startswith('ccl::semantic::rsCalculationFacet::'):
                    acts.append(callee)
                    return None
                if n['k'] == 'CXXOperatorCallExpr' and n.get('op') in ('*', '->') and n.get('args'):
                    return Obj(__facet__='ptr')
                if free is not None and callee.split('::')[-1] == 'Contains' and callee.startswith(('ccl::semantic::RSCore::', 'ccl::semantic::Schema::')):
                    return True         # the dependants come from the schema graph, whose items are the stored constituents (C07 r1 / C09 r7): not a free condition
                if free is not None and callee.startswith(('ccl::semantic::RSCore::', 'ccl::semantic::RSModel::', 'ccl::semantic::Schema::')) and n['k'] == 'CXXMemberCallExpr':
                    return _FreeObj(callee.split('::')[-1] + '(dependant)', free[0], free[1])
                return NOT_HANDLED
            it = Interp(db, on_call=on_call)
            env = {params[0]['did']: 1, params[0]['name']: 1, lv['did']: 1 if same else 2, lv['name']: 1 if same else 2, 'this': Obj()}
            try:
                it.exec(f, f.stmts[loop['body']], env)
            except (_Break, _Continue):
                pass
            except _Return:
                acts.append('<return>')
            table[(same, tname)] = acts
    return table
