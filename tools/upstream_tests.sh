#!/bin/bash
# Builds and runs the upstream rslang and core gtest suites (ccl/rslang/test/unity/rslTest.cpp, ccl/core/test/unity/cclTest.cpp) against a
# static library of <root> (default /repo). They are NOT part of the pinned suite (the cmake targets do not build under -Werror with gcc 12),
# but they compile by hand with -w and are used to validate every `fix:` commit. Scratch output under /tmp, removed afterwards.
# usage: tools/upstream_tests.sh [root]
R=${1:-/repo}; O=$(mktemp -d /tmp/vupstream-XXXX)
INC="-I$R/ccl/cclCommons/include -I$R/ccl/cclGraph/include -I$R/ccl/cclLang/include -I$R/ccl/rslang/include -I$R/ccl/core/include -I$R/ccl/core/import/include -I$R/ccl/core/header -I$R/ccl/cclGraph/header -I$R/ccl/rslang/header -I$R/ccl/rslang/import/include -I$R/ccl/rslang/import/reflex/include -I$R/ccl/cclLang/header"
for u in ccl/core/unity/CCL.cpp ccl/cclGraph/src/CGraph.cpp ccl/rslang/unity/reflex_unity1.cpp ccl/rslang/unity/reflex_unity2.cpp ccl/rslang/unity/RSlang.cpp ccl/rslang/unity/RSlang2.cpp ccl/cclLang/unity/cclLang.cpp; do
  ( g++ -std=c++20 -O0 -w -DNDEBUG $INC -c $R/$u -o $O/$(basename $u .cpp).o || echo "FAIL $u" ) &
done; wait
ar rcs $O/libccl.a $O/*.o
G="-I/root/miniconda/include -L/root/miniconda/lib -lgtest -lgtest_main -lgmock -lpthread -Wl,-rpath,/root/miniconda/lib"
rc=0
for t in rslang core; do
  src=$R/ccl/$t/test/unity/$([ $t = rslang ] && echo rslTest.cpp || echo cclTest.cpp)
  g++ -std=c++20 -O0 -w -DNDEBUG $INC -I$R/ccl/$t/test/utils -I$R/ccl/$t/test $src $O/libccl.a $G -o $O/${t}_tests 2> $O/$t.err || { echo "$t tests: BUILD FAILED"; head -5 $O/$t.err; rc=2; continue; }
  $O/${t}_tests 2>&1 | grep -E "^\[  (PASSED|FAILED)|tests ran" ; [ ${PIPESTATUS[0]} -eq 0 ] || rc=1
done
rm -rf $O; exit $rc
