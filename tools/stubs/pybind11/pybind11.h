// Minimal stand-in for pybind11 (not installed in the sandbox): enough for pyconcept.h to parse,
// so that the entry points in pyconcept/src/pyconcept.cpp are analysed like every other unit.
#pragma once
namespace pybind11 {
class module_ {
public:
  template <class... A> module_& def(const char*, A&&...) { return *this; }
};
} // namespace pybind11
#define PYBIND11_MODULE(name, var) [[maybe_unused]] static void pybind11_init_##name(pybind11::module_& var)
