#!/usr/bin/env python3
"""Checker self-test: every patch under selftest/ (and seeded/*/patch.diff) is applied to a scratch copy of the sources
(outside /repo and /verif, removed afterwards); the named check must exit 1 and report the expected rule/instance.

usage: tools/selftest.py [--property Cxx] [--seeded] [--keep]
"""
import argparse
import json
import os
import shutil
import subprocess
import sys
import tempfile
from concurrent.futures import ThreadPoolExecutor

VERIF = os.path.dirname(os.path.dirname(os.path.abspath(__file__)))


def run_one(item, repo='/repo'):
    tmp = tempfile.mkdtemp(prefix='vscratch-', dir=os.environ.get('VERIF_SCRATCH', '/tmp'))
    try:
        for d in ('ccl', 'pyconcept'):
            shutil.copytree(os.path.join(repo, d), os.path.join(tmp, d), ignore=shutil.ignore_patterns('test', 'tests'))
        r = subprocess.run(['patch', '-p1', '-s', '-d', tmp, '-i', item['patch_path']], capture_output=True, text=True)
        if r.returncode != 0:
            return item, 'PATCH-FAILED', r.stdout + r.stderr
        out = {}
        for pid in item['properties']:
            c = subprocess.run([os.path.join(VERIF, 'bin', 'check'), pid, '--root', tmp], capture_output=True, text=True)
            out[pid] = (c.returncode, c.stdout + c.stderr)
        return item, 'RAN', out
    finally:
        shutil.rmtree(tmp, ignore_errors=True)


def main():
    ap = argparse.ArgumentParser()
    ap.add_argument('--property')
    ap.add_argument('--seeded', action='store_true')
    ap.add_argument('--all-properties', action='store_true', help='for seeded patches: run every claimed check, not only the target property')
    ap.add_argument('-v', action='store_true')
    ap.add_argument('--only', help='comma-separated names of seeded changes to run (with --matrix: the entries are merged into the existing MATRIX.json)')
    ap.add_argument('--matrix', action='store_true', help='with --seeded --all-properties: write seeded/MATRIX.json and caught_by into each meta.json')
    a = ap.parse_args()
    items = []
    idx = os.path.join(VERIF, 'selftest', 'index.json')
    if os.path.exists(idx) and not a.seeded:
        for it in json.load(open(idx)):
            it['patch_path'] = os.path.join(VERIF, 'selftest', it['patch'])
            it['properties'] = [it['property']]
            items.append(it)
    if a.seeded:
        claimed = [c['property_id'] for c in json.load(open(os.path.join(VERIF, 'MANIFEST.json')))['checks']]
        sd = os.path.join(VERIF, 'seeded')
        for d in sorted(os.listdir(sd)) if os.path.isdir(sd) else []:
            mp = os.path.join(sd, d, 'meta.json')
            if not os.path.exists(mp):
                continue
            meta = json.load(open(mp))
            if meta.get('obsolete'):
                print('SELFTEST %-40s OBSOLETE (defect class removed from /repo by a later fix, see meta.json)' % d)
                continue
            it = {'name': d, 'property': meta['property'], 'patch_path': os.path.join(sd, d, 'patch.diff'), 'expect_rule': None, 'expect_instance': None}
            it['properties'] = claimed if a.all_properties else [meta['property']]
            items.append(it)
    if a.property:
        items = [i for i in items if i['property'] == a.property]
    if a.only:
        only = set(a.only.split(','))
        items = [i for i in items if (i.get('name') or i.get('patch')) in only]
    fails = 0
    matrix = {}
    with ThreadPoolExecutor(max_workers=8) as ex:
        for item, status, out in ex.map(run_one, items):
            name = item.get('name') or item.get('patch')
            if status != 'RAN':
                print('SELFTEST %-40s %s %s' % (name, status, out[:200]))
                fails += 1
                continue
            tgt = item['property']
            rc, text = out.get(tgt, (None, ''))
            hit = rc == 1 and 'VIOLATION property=%s' % tgt in text
            if hit and item.get('expect_rule'):
                hit = ('rule %s ' % item['expect_rule']) in text and (item.get('expect_instance') is None or ('instance %s ' % item['expect_instance']) in text)
            others = [p for p, (c, t) in out.items() if p != tgt and c == 1]
            rules_hit = sorted({ln.split()[1] for ln in text.splitlines() if ln.startswith('  rule ')})
            matrix[name] = {'property': tgt, 'target_caught': bool(hit), 'rules': rules_hit, 'also': sorted(others), 'broken': sorted(p for p, (c, t) in out.items() if c == 2)}
            print('SELFTEST %-40s %s target=%s rc=%s%s' % (name, 'CAUGHT' if hit else 'MISSED', tgt, rc, (' also=' + ','.join(others)) if others else ''))
            if a.v or not hit:
                for ln in text.splitlines():
                    if ln.startswith(('VIOLATION', '  rule', 'ANALYSIS-BROKEN', 'KNOWN')) or (a.v and ln.startswith('  ')):
                        print('      ' + ln[:220])
            if not hit:
                fails += 1
    print('selftest: %d items, %d not caught' % (len(items), fails))
    if a.matrix and a.seeded:
        mpath = os.path.join(VERIF, 'seeded', 'MATRIX.json')
        if a.only and os.path.exists(mpath):
            merged = json.load(open(mpath))
            merged.update(matrix)
        else:
            merged = matrix
        json.dump(merged, open(mpath, 'w'), indent=1, sort_keys=True)
        for name, e in matrix.items():
            mp = os.path.join(VERIF, 'seeded', name, 'meta.json')
            m = json.load(open(mp))
            m['breaks_property'] = e['property']
            m['caught_by'] = ([e['property']] if e['target_caught'] else []) + e['also']
            m['caught_by_rules'] = e['rules']
            json.dump(m, open(mp, 'w'), indent=1, ensure_ascii=False)
    return 1 if fails else 0


if __name__ == '__main__':
    sys.exit(main())
