#!/usr/bin/env python3
"""False-alarm regression: applies behaviour-preserving refactorings to a scratch copy of the sources (outside /repo and /verif, removed
afterwards) and requires every check to stay silent on it.  usage: tools/benign.py [-k]   (-k keeps the scratch copy)"""
import os, shutil, subprocess, sys, tempfile
VERIF = os.path.dirname(os.path.dirname(os.path.abspath(__file__)))
EDITS = [
 ('ccl/rslang/src/TypeAuditor.cpp', 'rename a local', '''  const auto maybeArgument = ChildType(iter, 0);
  if (!maybeArgument.has_value()) {
    return false;
  }
  const auto& argument = std::get<Typification>(maybeArgument.value());
  if (argument.IsAnyType() || (argument.IsCollection() && argument.B().Base().IsAnyType())) {
    return SetCurrent(Typification::EmptySet());
  }
  if (!argument.IsCollection() || !argument.B().Base().IsCollection()) {''', '''  const auto operandType = ChildType(iter, 0);
  if (!operandType.has_value()) {
    return false;
  }
  const auto& argument = std::get<Typification>(operandType.value());
  if (argument.IsAnyType() || (argument.IsCollection() && argument.B().Base().IsAnyType())) {
    return SetCurrent(Typification::EmptySet());
  }
  if (!argument.IsCollection() || !argument.B().Base().IsCollection()) {'''),
 ('ccl/rslang/src/ValueAuditor.cpp', 'accumulated flag -> std::all_of', '''  auto childrenIsValue = true;
  std::vector<ValueClass> args{};
  for (Index child = 1; child < iter.ChildrenCount(); ++child) {
    if (!VisitChild(iter, child)) {
      return false;
    }
    args.emplace_back(current);
    childrenIsValue = childrenIsValue && current == ValueClass::value;
  }
''', '''  std::vector<ValueClass> args{};
  for (Index child = 1; child < iter.ChildrenCount(); ++child) {
    if (!VisitChild(iter, child)) {
      return false;
    }
    args.emplace_back(current);
  }
  const auto childrenIsValue = std::all_of(begin(args), end(args), [](const ValueClass cls) noexcept { return cls == ValueClass::value; });
'''),
 ('ccl/cclGraph/src/CGraph.cpp', 'early return + named temporary', '''  if (!IsBroken()) {
    SetItemInputs(item, updater(item));
  }''', '''  if (IsBroken()) {
    return;
  }
  const auto newInputs = updater(item);
  SetItemInputs(item, newInputs);'''),
 ('ccl/rslang/src/RSParser.cpp', 'split a conjunction', '''  const auto success = impl->parse() == 0 && state.countCriticalErrors == 0;''', '''  const auto grammarAccepted = impl->parse() == 0;
  const auto success = grammarAccepted && state.countCriticalErrors == 0;'''),
 ('ccl/cclCommons/include/ccl/Strings.hpp', 'std::accumulate -> explicit loop', '''      return std::accumulate(next(begin(base)), end(base), *begin(base),
                             [](StrRange bounds, const StrRange& rng) noexcept {
        bounds.start = std::min(rng.start, bounds.start);
        bounds.finish = std::max(rng.finish, bounds.finish);
        return bounds;
      });''', '''      StrRange bounds = base.front();
      for (const auto& rng : base) {
        bounds.start = std::min(rng.start, bounds.start);
        bounds.finish = std::max(rng.finish, bounds.finish);
      }
      return bounds;'''),
 ('ccl/core/src/semantic/rsform/rsOperationFacet.cpp', 'rename a local container', 'inserted', 'copiedConstituents'),
 ('ccl/cclLang/src/Reference.cpp', 'switch -> if chain', '''  switch (type) {
  case ReferenceType::entity: {
    auto form = ExtractMorpho(tokens);
    if (std::empty(form)) {
      return {};
    }
    return Reference{ EntityRef{ std::string{ tokens.at(EntityRef::TR_ENTITY) }, std::move(form) } };
  }
  case ReferenceType::collaboration: {
    const auto offset = stoi(std::string{ tokens.at(CollaborationRef::CR_OFFSET) });
    if (offset < std::numeric_limits<int16_t>::min() || offset > std::numeric_limits<int16_t>::max()) {
      return {};
    }
    return Reference{ 
      CollaborationRef{ std::string{ tokens.at(CollaborationRef::CR_TEXT) }, static_cast<int16_t>(offset) }
    };
  }
  default:
  case ReferenceType::invalid: return {};
  }''', '''  if (type == ReferenceType::entity) {
    auto form = ExtractMorpho(tokens);
    if (std::empty(form)) {
      return {};
    }
    return Reference{ EntityRef{ std::string{ tokens.at(EntityRef::TR_ENTITY) }, std::move(form) } };
  }
  if (type == ReferenceType::collaboration) {
    const auto offset = stoi(std::string{ tokens.at(CollaborationRef::CR_OFFSET) });
    const auto fits = offset >= std::numeric_limits<int16_t>::min() && offset <= std::numeric_limits<int16_t>::max();
    if (!fits) {
      return {};
    }
    return Reference{ 
      CollaborationRef{ std::string{ tokens.at(CollaborationRef::CR_TEXT) }, static_cast<int16_t>(offset) }
    };
  }
  return {};'''),
 ('ccl/rslang/src/StructuredData.cpp', 'tuple comparison: index loop from 0 with a while', '''    for (auto index = rslang::Typification::PR_START; index < Arity() + rslang::Typification::PR_START; ++index) {
      if (const auto res = components.at(index).Compare(rhs.Component(index)); res != Comparison::EQUAL) {
        return res;
      }
    }
    return Comparison::EQUAL;''', '''    rslang::Index offset = 0;
    auto verdict = Comparison::EQUAL;
    while (offset < Arity() && verdict == Comparison::EQUAL) {
      const auto index = static_cast<rslang::Index>(rslang::Typification::PR_START + offset);
      verdict = components.at(index).Compare(rhs.Component(index));
      ++offset;
    }
    return verdict;'''),
 ('ccl/rslang/src/StructuredData.cpp', 'intersection: iterate over this and filter by rhs', '''  for (const auto& secondElement : rhs) {
    if (this->Contains(secondElement)) {
      result.ModifyB().AddElement(secondElement);
    }
  }
  return result;
}

StructuredData SDSet::Diff''', '''  for (auto iter = begin(); iter != end(); ++iter) {
    if (!rhs.Contains(*iter)) {
      continue;
    }
    result.ModifyB().AddElement(*iter);
  }
  return result;
}

StructuredData SDSet::Diff'''),
 ('ccl/rslang/src/SDImplementation.cpp', 'product iterator: indexed descending loop instead of reverse iterators', '''    auto index = size(componentIters) - 1;
    for (auto iter = componentIters.rbegin(); iter != componentIters.rend(); ++iter, --index) {
      if (IncrementComponent(*iter, index)) {
        ++counter;
        return *this;
      }
    }
    isCompleted = true;''', '''    for (auto remaining = size(componentIters); remaining > 0; --remaining) {
      const auto index = remaining - 1;
      if (IncrementComponent(componentIters.at(index), index)) {
        ++counter;
        return *this;
      }
    }
    isCompleted = true;'''),
 ('ccl/cclGraph/src/CGraph.cpp', 'edge count summed over the inputs lists', '''return val + static_cast<VertexIndex>(ssize(item.outputs)); });''', '''return val + static_cast<VertexIndex>(ssize(item.inputs)); });'''),
 ('ccl/cclGraph/src/CGraph.cpp', 'forward closure marks a vertex when it is popped', '''  UnorderedItems result{};
  while (!empty(toVisit)) {
    const auto item = toVisit.back();
    toVisit.pop_back();
    result.emplace(graph[item].uid);
    for (const auto child : graph[item].outputs) {
      if (!marked[child]) {
        marked[child] = true;
        toVisit.push_back(child);
      }
    }
  }

  return result;
}

CGraph::UnorderedItems CGraph::ExpandInputs''', '''  UnorderedItems result{};
  std::vector<bool> done(size(graph), false);
  while (!empty(toVisit)) {
    const auto item = toVisit.back();
    toVisit.pop_back();
    if (done[item]) {
      continue;
    }
    done[item] = true;
    result.emplace(graph[item].uid);
    for (const auto child : graph[item].outputs) {
      toVisit.push_back(child);
    }
  }

  return result;
}

CGraph::UnorderedItems CGraph::ExpandInputs'''),
 ('ccl/rslang/src/ASTNormalizer.cpp', 'set-builder normalised through the shared helper', '''  // Note: domain expression is not in the scope of declared variables
  const auto newName = ProcessTupleDeclaration(root(0));
  SubstituteTupleVariables(root(2), newName);
}''', '''  // Note: domain expression is not in the scope of declared variables
  TupleDeclaration(root(0), root(2));
}'''),
 ('ccl/rslang/src/TypeAuditor.cpp', 'argument recorded through a named temporary', '''  functionArgs.emplace_back(iter(0).data.ToText(), domain.value());
  return SetCurrent(LogicT{});''', '''  const auto& argumentName = iter(0).data.ToText();
  const auto& argumentType = domain.value();
  functionArgs.emplace_back(argumentName, argumentType);
  return SetCurrent(LogicT{});'''),
 ('ccl/core/src/semantic/schema/Schema.cpp', 'closure reset written with an index-free helper loop after computing the order', '''  const auto expansion = Graph().ExpandOutputs({ target });
  for (const auto dependant : expansion) { // Note: members of a dependency loop should not see outdated results of each other
    info.at(dependant).Reset();
  }
  ParseCst(target);
  const auto orderedList = Graph().Sort(expansion);''', '''  const auto expansion = Graph().ExpandOutputs({ target });
  const auto orderedList = Graph().Sort(expansion);
  for (const auto dependant : expansion) { // Note: members of a dependency loop should not see outdated results of each other
    info.at(dependant).Reset();
  }
  ParseCst(target);'''),
 ('ccl/rslang/include/ccl/rslang/LexerBase.hpp', 'literal converted with stoi (reached only for tokens the range test let through)', '''    return TokenData{ static_cast<int32_t>(std::atol(Text().c_str())) }; // TODO: strtol''', '''    return TokenData{ std::stoi(Text()) };'''),
 ('ccl/rslang/src/StructuredData.cpp', 'CheckCompatible with an explicit loop', '''      const auto& base = type.B().Base();
      return std::all_of(std::begin(data.B()), std::end(data.B()),
        [&](const auto& element) { return CheckCompatible(element, base); });''', '''      const auto& base = type.B().Base();
      for (const auto& element : data.B()) {
        if (!CheckCompatible(element, base)) {
          return false;
        }
      }
      return true;'''),
 ('ccl/cclLang/src/Reference.cpp', 'ExtractAll with a while loop', '''  for (auto position = NextReference(text); position.has_value(); ) {
    if (auto ref = Reference::Parse(Substr(text, position.value())); ref.IsValid()) {
      ref.position = position.value();
      result.emplace_back(std::move(ref));
      position = NextReference(text, position->finish);
    } else {
      position = NextReference(text, position->start + markerLen);
    }
  }
  return result;''', '''  auto position = NextReference(text);
  while (position.has_value()) {
    auto ref = Reference::Parse(Substr(text, position.value()));
    const auto resume = ref.IsValid() ? position->finish : position->start + markerLen;
    if (ref.IsValid()) {
      ref.position = position.value();
      result.emplace_back(std::move(ref));
    }
    position = NextReference(text, resume);
  }
  return result;'''),
 ('ccl/core/src/ops/RSOperations.cpp', 'handover test written with the boolean conversion', '''  if (resultSchema == nullptr) {
    ResetResult(); // Note: result of the previous run was handed over to the caller''', '''  if (!resultSchema) {
    ResetResult(); // Note: result of the previous run was handed over to the caller'''),
 ('ccl/rslang/include/ccl/rslang/ParserState.hpp', 'a larger depth bound', '''MAX_TREE_DEPTH = 1000;''', '''MAX_TREE_DEPTH = 2000;'''),
 ('ccl/core/src/oss/ossOperationsFacet.cpp', 'null test of the translations written the other way round', '''  } else if (operations.at(pid)->translations == nullptr) {
    return false;
  } else {''', '''  } else if (!operations.at(pid)->translations) {
    return false;
  } else {'''),
 ('ccl/core/src/semantic/rsmodel/rsValuesFacet.cpp', 'base lookup tested in the negative form with early value', '''    const auto baseUID = core.Core().FindAlias(type.E().baseID);
    if (!baseUID.has_value()) {
      return false;
    }
    const auto* baseText = TextFor(baseUID.value());
    return baseText != nullptr && baseText->HasInterpretantFor(data.E().Value());''', '''    if (const auto baseUID = core.Core().FindAlias(type.E().baseID); baseUID.has_value()) {
      const auto* baseText = TextFor(baseUID.value());
      return baseText != nullptr && baseText->HasInterpretantFor(data.E().Value());
    }
    return false;'''),
 ('ccl/cclGraph/src/CGraph.cpp', 'reachability through the closure of the source minus the trivial path', '''  UnorderedItems successors{};
  for (const auto child : graph[IndexFor(source)].outputs) {
    successors.emplace(graph[child].uid);
  }
  return ExpandOutputs(successors).contains(dest);''', '''  for (const auto child : graph[IndexFor(source)].outputs) {
    if (ExpandOutputs({ graph[child].uid }).contains(dest)) {
      return true;
    }
  }
  return false;'''),
 ('ccl/core/src/semantic/rsform/RSForm.cpp', 'duplicate translation composed through a named single-pair translation', '''            EntityTranslation step{};
            step.Insert(copy, original);
            translation.SuperposeWith(step); // Note: redirect constituents already merged into the erased copy''', '''            EntityTranslation erasedToSurvivor{};
            erasedToSurvivor.Insert(copy, original);
            translation.SuperposeWith(erasedToSurvivor);'''),
 ('ccl/core/src/semantic/rsmodel/RSModel.cpp', 'erase prunes through a helper lambda', '''    for (const auto dependant : dependants) {
      // Note: structures are pruned again now that the erased constituent no longer types them
      if (dependant != target && core.GetRS(dependant).type == CstType::structured) {
        dataFacet->PruneStructure(dependant);
      }
    }''', '''    const auto pruneIfStructure = [&](const EntityUID dependant) {
      if (dependant != target && core.GetRS(dependant).type == CstType::structured) {
        dataFacet->PruneStructure(dependant);
      }
    };
    for (const auto dependant : dependants) {
      pruneIfStructure(dependant);
    }'''),
 ('ccl/rslang/src/SDataCompact.cpp', 'unpack loop counts upwards', '''  auto count = declared;
  for (; pos_x < size(input) && count > 0; ++pos_x, --count) {
    pos_y = base_y + 1;
    if (!ReadElementInto(modifiableResult, baseType)) {
      return std::nullopt;
    }
  }
  if (count != 0 && declared != SDCompact::unknownCount) {
    return std::nullopt;
  }''', '''  std::remove_const_t<decltype(declared)> taken = 0;
  for (; pos_x < size(input) && taken < declared; ++pos_x, ++taken) {
    pos_y = base_y + 1;
    if (!ReadElementInto(modifiableResult, baseType)) {
      return std::nullopt;
    }
  }
  if (taken != declared && declared != SDCompact::unknownCount) {
    return std::nullopt;
  }'''),
 ('ccl/rslang/src/RSExpr.cpp', 'token loop as while(true) with a break at END', '''  for (auto token = lex.lex(); token != TokenID::END; token = lex.lex()) {
    if (filter(token)) {''', '''  while (true) {
    const auto token = lex.lex();
    if (token == TokenID::END) {
      break;
    }
    if (filter(token)) {'''),
 ('ccl/core/src/semantic/rscore/CstList.cpp', 'CanMoveBefore with named kinds (operands kept)', '''  } else if (iWhere == begin()) {
    return !HasPriorityOver(types(*iWhere), types(*what));
  } else {
    ListIterator prev = iWhere;
    --prev;
    return !HasPriorityOver(types(*iWhere), types(*what)) &&
      !HasPriorityOver(types(*what), types(*prev));
  }''', '''  }
  const auto moved = types(*what);
  const auto next = types(*iWhere);
  if (iWhere == begin()) {
    return !HasPriorityOver(next, moved);
  } else {
    ListIterator prev = iWhere;
    --prev;
    return !HasPriorityOver(next, moved) && !HasPriorityOver(moved, types(*prev));
  }'''),
 ('ccl/rslang/src/Typification.cpp', 'tuple text with the join idiom (brackets kept for every factor)', '''  std::string res{};
  for (size_t i = 0U; i < size(factors); ++i) {
    if (i != 0) {
      res += Token::Str(TokenID::DECART);
    }
    if (factors.at(i).IsTuple()) {
      res += '(';
    }
    res += factors.at(i).ToString();
    if (factors.at(i).IsTuple()) {
      res += ')';
    }
  }
  return res;''', '''  const auto show = [](const Typification& factor) {
    return factor.IsTuple() ? '(' + factor.ToString() + ')' : factor.ToString();
  };
  std::string res = show(factors.front());
  for (size_t i = 1U; i < size(factors); ++i) {
    res += Token::Str(TokenID::DECART);
    res += show(factors.at(i));
  }
  return res;'''),
 ('ccl/rslang/src/ASTInterpreter.cpp', 'projection buffer hoisted and cleared per element', '''  for (const auto& element : argument.B()) {
    std::vector<StructuredData> components{};
    components.reserve(size(indicies));
    for (const auto& index : indicies) {
      components.emplace_back(element.T().Component(index));
    }
    const auto tuple = Factory::Tuple(components);''', '''  std::vector<StructuredData> components{};
  components.reserve(size(indicies));
  for (const auto& element : argument.B()) {
    components.clear();
    for (const auto& index : indicies) {
      components.emplace_back(element.T().Component(index));
    }
    const auto tuple = Factory::Tuple(components);'''),
 ('ccl/core/src/ops/RSOperations.cpp', 'maximal part: test membership first through a named flag', '''      if (!selList.contains(entity) && CheckCst(entity, selList)) {
        selList.emplace(entity);
        changed = true;
      }''', '''      const auto alreadyIn = selList.contains(entity);
      if (alreadyIn) {
        continue;
      }
      if (CheckCst(entity, selList)) {
        selList.emplace(entity);
        changed = true;
      }'''),
 ('ccl/core/src/semantic/schema/Schema.cpp', 'TranslateAll over a named reference', '''    storage.at(cst.uid).Translate(old2New);
    graph.UpdateFor(cst.uid);
  }''', '''    auto& stored = storage.at(cst.uid);
    stored.Translate(old2New);
    graph.UpdateFor(cst.uid);
  }'''),
 ('ccl/core/src/oss/ossSourceFacet.cpp', 'UpdateSync with the handle named', '''  if (auto* src = sources.at(pid).src; src != nullptr) {
    return Environment::Sources().SaveState(*src);
  } else {
    return true;
  }''', '''  const auto& handle = sources.at(pid);
  if (handle.src == nullptr) {
    return true;
  }
  return Environment::Sources().SaveState(*handle.src);'''),
 ('ccl/core/src/semantic/rsmodel/RSModel.cpp', 'ResetDependants: skip conditions as early continues', '''    if (const auto type = core.GetRS(dependant).type;
        dependant != target &&
        !IsBaseSet(type)) {''', '''    const auto type = core.GetRS(dependant).type;
    if (dependant == target) {
      continue;
    }
    if (!IsBaseSet(type)) {'''),
 ('ccl/core/src/oss/OSSchema.cpp', 'Erase: independent table erasers in another order (all before the storage entry)', '''    graph->Erase(target);
    grid->Erase(target);
    sources->Erase(target);
    ops->Erase(target);''', '''    grid->Erase(target);
    ops->Erase(target);
    graph->Erase(target);
    sources->Erase(target);'''),
 ('ccl/rslang/src/ASTInterpreter.cpp', 'ViRecursion: fixed-point test through a named flag', '''  } while (idsData[varID] != current);''', '''    if (idsData[varID] == current) {
      break;
    }
  } while (true);'''),
]


def main():
    keep = '-k' in sys.argv
    tmp = tempfile.mkdtemp(prefix='vbenign-', dir=os.environ.get('VERIF_SCRATCH', '/tmp'))
    try:
        for d in ('ccl', 'pyconcept'):
            shutil.copytree(os.path.join('/repo', d), os.path.join(tmp, d), ignore=shutil.ignore_patterns('test', 'tests'))
        for path, what, old, new in EDITS:
            p = os.path.join(tmp, path)
            s = open(p).read()
            if old not in s:
                print('BENIGN edit no longer applies (%s: %s) - refresh tools/benign.py' % (path, what))
                return 2
            open(p, 'w').write(s.replace(old, new))
        checks = ['C%02d' % i for i in range(1, 21)]
        bad = 0
        for c in checks:
            r = subprocess.run([os.path.join(VERIF, 'bin', 'check'), c, '--root', tmp], capture_output=True, text=True)
            if r.returncode != 0:
                bad += 1
                print('BENIGN %s raised an alarm (rc=%d) on behaviour-preserving edits:' % (c, r.returncode))
                for ln in (r.stdout + r.stderr).splitlines():
                    if ln.startswith(('VIOLATION', '  rule', 'ANALYSIS-BROKEN')):
                        print('   ' + ln[:240])
        print('benign: %d edits, %d checks, %d alarms' % (len(EDITS), len(checks), bad))
        return 1 if bad else 0
    finally:
        if not keep:
            shutil.rmtree(tmp, ignore_errors=True)


if __name__ == '__main__':
    sys.exit(main())
