#!/usr/bin/env python3
"""mkpatch.py <name> <property> <rule> <instance> <file> <old> <new>  — create selftest/<name>.patch by replacing the first
occurrence of <old> in /repo/<file> (in a scratch copy) and register it in selftest/index.json."""
import json, os, subprocess, sys, tempfile, shutil
name, prop, rule, inst, f, old, new = sys.argv[1:8]
V = os.path.dirname(os.path.dirname(os.path.abspath(__file__)))
tmp = tempfile.mkdtemp(prefix='mkpatch-')
try:
    for side in 'ab':
        os.makedirs(os.path.join(tmp, side, os.path.dirname(f)))
        shutil.copy(os.path.join('/repo', f), os.path.join(tmp, side, f))
    p = os.path.join(tmp, 'b', f)
    s = open(p).read()
    if s.count(old) < 1:
        sys.exit('pattern not found: ' + old)
    open(p, 'w').write(s.replace(old, new, 1))
    r = subprocess.run(['diff', '-u', 'a/' + f, 'b/' + f], cwd=tmp, capture_output=True, text=True)
    open(os.path.join(V, 'selftest', name + '.patch'), 'w').write(r.stdout)
finally:
    shutil.rmtree(tmp)
idx = os.path.join(V, 'selftest', 'index.json')
items = json.load(open(idx))
items = [i for i in items if i['patch'] != name + '.patch']
items.append({'patch': name + '.patch', 'property': prop, 'expect_rule': rule or None, 'expect_instance': inst or None})
json.dump(items, open(idx, 'w'), indent=1)
print('selftest/%s.patch' % name)
