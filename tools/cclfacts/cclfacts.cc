// cclfacts — LibTooling fact extractor for the ConceptCore static checks (engine E1).
//
// For one translation unit it writes a JSON document with
//   * every function definition whose body lies under <root>/ccl or <root>/pyconcept
//     (third-party code under /import/, nlohmann/ and reflex is skipped): identity,
//     the typed statement/expression tree of the body (one record per Stmt with resolved
//     callees, referenced declarations, member names, literal values, folded constants)
//     and the clang CFG (blocks, ordered elements, successors, terminators, implicit dtors);
//   * lambdas as separate functions;
//   * class records (fields, default member initialisers, methods, special members, bases);
//   * enums; variables with static storage duration.
// Nothing is decided here; all rules are in /verif/rules (python).
//
// usage: cclfacts --root /repo --out facts.json file.cpp -- <compile flags>

#include "clang/AST/ASTConsumer.h"
#include "clang/AST/ASTContext.h"
#include "clang/AST/Mangle.h"
#include "clang/AST/RecursiveASTVisitor.h"
#include "clang/AST/StmtVisitor.h"
#include "clang/AST/ExprCXX.h"
#include "clang/Analysis/CFG.h"
#include "clang/Frontend/CompilerInstance.h"
#include "clang/Frontend/FrontendAction.h"
#include "clang/Lex/Lexer.h"
#include "clang/Tooling/CommonOptionsParser.h"
#include "clang/Tooling/Tooling.h"
#include "llvm/Support/CommandLine.h"
#include "llvm/Support/JSON.h"
#include "llvm/Support/raw_ostream.h"

#include <map>
#include <set>
#include <string>
#include <vector>
#include <deque>

using namespace clang;
using namespace clang::tooling;

static llvm::cl::OptionCategory Cat("cclfacts options");
static llvm::cl::opt<std::string> OptRoot("root", llvm::cl::desc("repository root"), llvm::cl::init("/repo"), llvm::cl::cat(Cat));
static llvm::cl::opt<std::string> OptOut("out", llvm::cl::desc("output json"), llvm::cl::Required, llvm::cl::cat(Cat));

namespace {

std::string hexOf(llvm::StringRef bytes) {
  static const char* d = "0123456789abcdef";
  std::string r;
  r.reserve(bytes.size() * 2);
  for (unsigned char c : bytes) { r.push_back(d[c >> 4]); r.push_back(d[c & 15]); }
  return r;
}

bool validUtf8(llvm::StringRef s) {
  size_t i = 0, n = s.size();
  while (i < n) {
    unsigned char c = s[i];
    size_t len = c < 0x80 ? 1 : (c >> 5) == 6 ? 2 : (c >> 4) == 14 ? 3 : (c >> 3) == 30 ? 4 : 0;
    if (len == 0 || i + len > n) return false;
    for (size_t k = 1; k < len; ++k) if ((static_cast<unsigned char>(s[i + k]) >> 6) != 2) return false;
    i += len;
  }
  return true;
}

std::string safeText(llvm::StringRef s, size_t limit = 240) {
  std::string r;
  bool sp = false;
  for (char c : s) {
    if (c == '\n' || c == '\r' || c == '\t' || c == ' ') { if (!sp) r.push_back(' '); sp = true; }
    else { r.push_back(c); sp = false; }
    if (r.size() >= limit) break;
  }
  while (!r.empty() && !validUtf8(r)) r.pop_back();
  return r;
}

class Dumper {
public:
  ASTContext& Ctx;
  SourceManager& SM;
  std::unique_ptr<MangleContext> Mangle;
  llvm::json::OStream& J;
  std::string Root;
  std::set<std::string> seenFuncs;
  std::set<const CXXRecordDecl*> seenRecords;
  std::deque<std::pair<const LambdaExpr*, std::string>> lambdaQueue;

  Dumper(ASTContext& C, llvm::json::OStream& J, std::string root)
    : Ctx(C), SM(C.getSourceManager()), Mangle(C.createMangleContext()), J(J), Root(std::move(root)) {}

  std::string fileOf(SourceLocation L) const {
    if (L.isInvalid()) return "";
    L = SM.getExpansionLoc(L);
    auto P = SM.getPresumedLoc(L, /*UseLineDirectives=*/false);
    if (P.isInvalid()) return "";
    std::string f = P.getFilename();
    // normalise a/b/../c
    std::vector<std::string> parts;
    size_t i = 0;
    bool abs = !f.empty() && f[0] == '/';
    while (i <= f.size()) {
      size_t j = f.find('/', i);
      if (j == std::string::npos) j = f.size();
      std::string p = f.substr(i, j - i);
      if (p == "..") { if (!parts.empty()) parts.pop_back(); }
      else if (!p.empty() && p != ".") parts.push_back(p);
      i = j + 1;
    }
    std::string r = abs ? "/" : "";
    for (size_t k = 0; k < parts.size(); ++k) { if (k) r += "/"; r += parts[k]; }
    return r;
  }
  unsigned lineOf(SourceLocation L) const {
    if (L.isInvalid()) return 0;
    return SM.getExpansionLineNumber(L);
  }
  unsigned colOf(SourceLocation L) const {
    if (L.isInvalid()) return 0;
    return SM.getExpansionColumnNumber(L);
  }
  bool inRepo(SourceLocation L) const {
    std::string f = fileOf(L);
    if (f.rfind(Root + "/ccl/", 0) != 0 && f.rfind(Root + "/pyconcept/", 0) != 0) return false;
    if (f.find("/import/") != std::string::npos) return false;
    if (f.find("/nlohmann/") != std::string::npos) return false;
    if (f.find("/reflex") != std::string::npos) return false;
    return true;
  }
  std::string relFile(SourceLocation L) const {
    std::string f = fileOf(L);
    if (f.rfind(Root + "/", 0) == 0) return f.substr(Root.size() + 1);
    return f;
  }

  std::string mangled(const FunctionDecl* FD) {
    if (FD == nullptr) return "";
    if (FD->isDependentContext()) return "";
    std::string s;
    llvm::raw_string_ostream os(s);
    if (auto* C = dyn_cast<CXXConstructorDecl>(FD)) Mangle->mangleName(GlobalDecl(C, Ctor_Complete), os);
    else if (auto* D = dyn_cast<CXXDestructorDecl>(FD)) Mangle->mangleName(GlobalDecl(D, Dtor_Complete), os);
    else if (Mangle->shouldMangleDeclName(FD)) Mangle->mangleName(GlobalDecl(FD), os);
    else os << FD->getNameAsString();
    return os.str();
  }

  std::string qname(const NamedDecl* D) {
    if (D == nullptr) return "";
    std::string s;
    llvm::raw_string_ostream os(s);
    D->printQualifiedName(os);
    return os.str();
  }

  std::string typeStr(QualType T) {
    if (T.isNull()) return "";
    PrintingPolicy PP(Ctx.getLangOpts());
    PP.SuppressTagKeyword = true;
    PP.Bool = true;
    std::string s = T.getAsString(PP);
    if (s.size() > 200) s = s.substr(0, 200);
    return s;
  }

  std::string srcText(SourceRange R, size_t limit = 240) {
    if (R.isInvalid()) return "";
    CharSourceRange CR = CharSourceRange::getTokenRange(SM.getExpansionLoc(R.getBegin()), SM.getExpansionLoc(R.getEnd()));
    bool invalid = false;
    llvm::StringRef t = Lexer::getSourceText(CR, SM, Ctx.getLangOpts(), &invalid);
    if (invalid) return "";
    return safeText(t, limit);
  }

  // ---------------- statements ----------------
  struct FnState {
    std::map<const Stmt*, int> ids;
    int next = 0;
  };

  int idOf(FnState& st, const Stmt* S) {
    auto it = st.ids.find(S);
    if (it != st.ids.end()) return it->second;
    return -1;
  }

  void declRefInfo(const ValueDecl* D) {
    if (D == nullptr) return;
    J.attribute("name", D->getNameAsString());
    if (auto* V = dyn_cast<VarDecl>(D)) {
      const char* k = isa<ParmVarDecl>(V) ? "param" : V->isStaticLocal() ? "staticlocal" : V->isLocalVarDecl() ? "local"
        : V->isStaticDataMember() ? "staticmember" : "global";
      J.attribute("dk", k);
      if (!V->isLocalVarDeclOrParm() || V->isStaticLocal()) J.attribute("qn", qname(V));
      if (auto* P = dyn_cast<ParmVarDecl>(V)) J.attribute("pidx", static_cast<int64_t>(P->getFunctionScopeIndex()));
      J.attribute("did", static_cast<int64_t>(reinterpret_cast<uintptr_t>(V->getCanonicalDecl()) & 0xffffffffffffULL));
    } else if (auto* F = dyn_cast<FunctionDecl>(D)) {
      J.attribute("dk", "function");
      J.attribute("qn", qname(F));
      J.attribute("mn", mangled(F));
    } else if (auto* E = dyn_cast<EnumConstantDecl>(D)) {
      J.attribute("dk", "enumerator");
      J.attribute("qn", qname(E));
      J.attribute("val", E->getInitVal().getExtValue());
    } else if (isa<FieldDecl>(D)) {
      J.attribute("dk", "field");
      J.attribute("qn", qname(D));
    } else if (isa<BindingDecl>(D)) {
      J.attribute("dk", "binding");
      J.attribute("did", static_cast<int64_t>(reinterpret_cast<uintptr_t>(D) & 0xffffffffffffULL));
    } else {
      J.attribute("dk", "other");
      J.attribute("qn", qname(D));
    }
  }

  void calleeInfo(const FunctionDecl* FD) {
    if (FD == nullptr) return;
    J.attribute("callee", qname(FD));
    J.attribute("mn", mangled(FD));
    if (auto* M = dyn_cast<CXXMethodDecl>(FD)) {
      J.attribute("cls", qname(M->getParent()));
      if (M->isVirtual()) J.attribute("virtual", true);
      if (M->isConst()) J.attribute("constm", true);
      if (M->isStatic()) J.attribute("staticm", true);
      if (M->getParent()->isLambda()) J.attribute("lambdacall", true);
    }
    if (const FunctionDecl* P = FD->getTemplateInstantiationPattern()) {
      (void)P;
      if (auto* TA = FD->getTemplateSpecializationArgs()) {
        J.attributeArray("targs", [&] {
          for (const auto& A : TA->asArray()) {
            std::string s;
            llvm::raw_string_ostream os(s);
            A.print(PrintingPolicy(Ctx.getLangOpts()), os, true);
            J.value(os.str());
          }
        });
      }
    }
    SourceLocation L = FD->getLocation();
    if (inRepo(L)) J.attribute("inrepo", true);
  }

  void assignIds(FnState& st, const Stmt* S) {
    if (S == nullptr) return;
    if (st.ids.count(S)) return;
    st.ids[S] = st.next++;
    if (auto* L = dyn_cast<LambdaExpr>(S)) {
      // captures inits are children; body dumped as separate function
      for (const Stmt* C : L->children()) assignIds(st, C);
      return;
    }
    for (const Stmt* C : S->children()) assignIds(st, C);
  }

  void dumpVarDecl(FnState& st, const VarDecl* V) {
    J.object([&] {
      J.attribute("name", V->getNameAsString());
      J.attribute("type", typeStr(V->getType()));
      J.attribute("did", static_cast<int64_t>(reinterpret_cast<uintptr_t>(V->getCanonicalDecl()) & 0xffffffffffffULL));
      if (V->isStaticLocal()) J.attribute("static", true);
      if (V->getType()->isReferenceType()) J.attribute("ref", true);
      if (V->getType().getNonReferenceType().isConstQualified()) J.attribute("const", true);
      if (V->hasInit()) J.attribute("init", idOf(st, V->getInit()));
      if (auto* DD = dyn_cast<DecompositionDecl>(V)) {
        J.attributeArray("bindings", [&] {
          for (auto* B : DD->bindings()) {
            J.object([&] {
              J.attribute("name", B->getNameAsString());
              J.attribute("did", static_cast<int64_t>(reinterpret_cast<uintptr_t>(B) & 0xffffffffffffULL));
            });
          }
        });
      }
    });
  }

  void dumpStmt(FnState& st, const Stmt* S, const std::string& fnName) {
    if (S == nullptr) return;
    J.object([&] {
      J.attribute("id", idOf(st, S));
      J.attribute("k", S->getStmtClassName());
      J.attribute("line", static_cast<int64_t>(lineOf(S->getBeginLoc())));
      J.attribute("col", static_cast<int64_t>(colOf(S->getBeginLoc())));
      {
        std::string f = relFile(S->getBeginLoc());
        J.attribute("f", f);
      }
      J.attributeArray("c", [&] {
        for (const Stmt* C : S->children()) J.value(C ? idOf(st, C) : -1);
      });
      if (auto* E = dyn_cast<Expr>(S)) {
        J.attribute("t", typeStr(E->getType()));
        if (E->isLValue()) J.attribute("lv", true);
        if (!isa<IntegerLiteral>(E) && !E->isValueDependent() && !E->isTypeDependent() &&
            !E->getType().isNull() && E->getType()->isIntegralOrEnumerationType()) {
          Expr::EvalResult R;
          if (E->EvaluateAsInt(R, Ctx, Expr::SE_NoSideEffects)) J.attribute("cv", R.Val.getInt().getExtValue());
        }
      }
      bool wantText = isa<Expr>(S) || isa<ReturnStmt>(S) || isa<DeclStmt>(S);
      if (wantText) J.attribute("txt", srcText(S->getSourceRange(), isa<Expr>(S) ? 160 : 200));

      if (auto* DRE = dyn_cast<DeclRefExpr>(S)) {
        declRefInfo(DRE->getDecl());
      } else if (auto* ME = dyn_cast<MemberExpr>(S)) {
        J.attribute("member", ME->getMemberDecl()->getNameAsString());
        J.attribute("qn", qname(ME->getMemberDecl()));
        if (ME->isArrow()) J.attribute("arrow", true);
        if (isa<FieldDecl>(ME->getMemberDecl())) J.attribute("mk", "field");
        else if (auto* MD = dyn_cast<CXXMethodDecl>(ME->getMemberDecl())) { J.attribute("mk", "method"); J.attribute("mn", mangled(MD)); }
        else J.attribute("mk", "other");
        if (auto* FD = dyn_cast<FieldDecl>(ME->getMemberDecl())) {
          J.attribute("fcls", qname(FD->getParent()));
          if (FD->isMutable()) J.attribute("mutable", true);
        }
      } else if (auto* UME = dyn_cast<UnresolvedMemberExpr>(S)) {
        J.attribute("member", UME->getMemberName().getAsString());
        J.attribute("unresolved", true);
      } else if (auto* DME = dyn_cast<CXXDependentScopeMemberExpr>(S)) {
        J.attribute("member", DME->getMember().getAsString());
        J.attribute("unresolved", true);
      } else if (auto* ULE = dyn_cast<UnresolvedLookupExpr>(S)) {
        J.attribute("name", ULE->getName().getAsString());
        J.attribute("unresolved", true);
      } else if (auto* OC = dyn_cast<CXXOperatorCallExpr>(S)) {
        J.attribute("op", getOperatorSpelling(OC->getOperator()));
        calleeInfo(OC->getDirectCallee());
        J.attribute("nargs", static_cast<int64_t>(OC->getNumArgs()));
        J.attributeArray("args", [&] { for (auto* A : OC->arguments()) J.value(idOf(st, A)); });
      } else if (auto* MC = dyn_cast<CXXMemberCallExpr>(S)) {
        calleeInfo(MC->getMethodDecl());
        if (auto* O = MC->getImplicitObjectArgument()) J.attribute("obj", idOf(st, O));
        J.attributeArray("args", [&] { for (auto* A : MC->arguments()) J.value(idOf(st, A)); });
      } else if (auto* CE = dyn_cast<CallExpr>(S)) {
        calleeInfo(CE->getDirectCallee());
        J.attribute("calleeexpr", idOf(st, CE->getCallee()));
        J.attributeArray("args", [&] { for (auto* A : CE->arguments()) J.value(idOf(st, A)); });
      } else if (auto* CC = dyn_cast<CXXConstructExpr>(S)) {
        calleeInfo(CC->getConstructor());
        J.attribute("ctor", true);
        if (CC->getConstructor()->isCopyConstructor()) J.attribute("copyctor", true);
        if (CC->getConstructor()->isMoveConstructor()) J.attribute("movector", true);
        if (CC->isElidable()) J.attribute("elidable", true);
        J.attributeArray("args", [&] { for (auto* A : CC->arguments()) J.value(idOf(st, A)); });
      } else if (auto* NE = dyn_cast<CXXNewExpr>(S)) {
        J.attribute("newtype", typeStr(NE->getAllocatedType()));
      } else if (auto* IL = dyn_cast<IntegerLiteral>(S)) {
        J.attribute("cv", static_cast<int64_t>(IL->getValue().getLimitedValue()));
      } else if (auto* SL = dyn_cast<clang::StringLiteral>(S)) {
        if (SL->getCharByteWidth() == 1) J.attribute("hex", hexOf(SL->getBytes()));
      } else if (auto* CL = dyn_cast<CharacterLiteral>(S)) {
        J.attribute("cv", static_cast<int64_t>(CL->getValue()));
      } else if (auto* BL = dyn_cast<CXXBoolLiteralExpr>(S)) {
        J.attribute("bv", BL->getValue());
      } else if (auto* BO = dyn_cast<BinaryOperator>(S)) {
        J.attribute("op", BO->getOpcodeStr());
      } else if (auto* UO = dyn_cast<UnaryOperator>(S)) {
        J.attribute("op", UnaryOperator::getOpcodeStr(UO->getOpcode()));
        if (UO->isPostfix()) J.attribute("postfix", true);
      } else if (auto* CS = dyn_cast<CaseStmt>(S)) {
        const Expr* L = CS->getLHS();
        if (L && !L->isValueDependent()) {
          Expr::EvalResult R;
          if (L->EvaluateAsInt(R, Ctx)) J.attribute("cv", R.Val.getInt().getExtValue());
          const Expr* LI = L->IgnoreParenImpCasts();
          if (auto* CE2 = dyn_cast<ConstantExpr>(LI)) LI = CE2->getSubExpr()->IgnoreParenImpCasts();
          if (auto* D = dyn_cast<DeclRefExpr>(LI)) if (auto* EC = dyn_cast<EnumConstantDecl>(D->getDecl())) J.attribute("enumerator", qname(EC));
        }
        J.attribute("sub", idOf(st, CS->getSubStmt()));
      } else if (auto* DS = dyn_cast<DefaultStmt>(S)) {
        J.attribute("sub", idOf(st, DS->getSubStmt()));
      } else if (auto* IS = dyn_cast<IfStmt>(S)) {
        if (IS->getInit()) J.attribute("init", idOf(st, IS->getInit()));
        if (IS->getConditionVariableDeclStmt()) J.attribute("condvar", idOf(st, IS->getConditionVariableDeclStmt()));
        J.attribute("cond", idOf(st, IS->getCond()));
        J.attribute("then", idOf(st, IS->getThen()));
        if (IS->getElse()) J.attribute("else", idOf(st, IS->getElse()));
        if (IS->isConstexpr()) J.attribute("constexpr", true);
      } else if (auto* WS = dyn_cast<WhileStmt>(S)) {
        J.attribute("cond", idOf(st, WS->getCond()));
        J.attribute("body", idOf(st, WS->getBody()));
      } else if (auto* DoS = dyn_cast<DoStmt>(S)) {
        J.attribute("cond", idOf(st, DoS->getCond()));
        J.attribute("body", idOf(st, DoS->getBody()));
      } else if (auto* FS = dyn_cast<ForStmt>(S)) {
        if (FS->getInit()) J.attribute("init", idOf(st, FS->getInit()));
        if (FS->getCond()) J.attribute("cond", idOf(st, FS->getCond()));
        if (FS->getInc()) J.attribute("inc", idOf(st, FS->getInc()));
        J.attribute("body", idOf(st, FS->getBody()));
      } else if (auto* FR = dyn_cast<CXXForRangeStmt>(S)) {
        if (FR->getRangeInit()) J.attribute("range", idOf(st, FR->getRangeInit()));
        if (FR->getLoopVarStmt()) J.attribute("loopvar", idOf(st, FR->getLoopVarStmt()));
        J.attribute("body", idOf(st, FR->getBody()));
      } else if (auto* SS = dyn_cast<SwitchStmt>(S)) {
        J.attribute("cond", idOf(st, SS->getCond()));
        J.attribute("body", idOf(st, SS->getBody()));
        J.attribute("condtype", typeStr(SS->getCond()->IgnoreParenImpCasts()->getType()));
      } else if (auto* RS = dyn_cast<ReturnStmt>(S)) {
        if (RS->getRetValue()) J.attribute("value", idOf(st, RS->getRetValue()));
      } else if (auto* CO = dyn_cast<ConditionalOperator>(S)) {
        J.attribute("cond", idOf(st, CO->getCond()));
        J.attribute("then", idOf(st, CO->getTrueExpr()));
        J.attribute("else", idOf(st, CO->getFalseExpr()));
      } else if (auto* DSt = dyn_cast<DeclStmt>(S)) {
        J.attributeArray("decls", [&] {
          for (auto* D : DSt->decls()) if (auto* V = dyn_cast<VarDecl>(D)) dumpVarDecl(st, V);
        });
      } else if (auto* LE = dyn_cast<LambdaExpr>(S)) {
        std::string ln = fnName + "::lambda@" + std::to_string(lineOf(LE->getBeginLoc())) + ":" + std::to_string(colOf(LE->getBeginLoc()));
        J.attribute("lambda", ln);
        J.attribute("lambdamn", mangled(LE->getCallOperator()));
        J.attributeArray("captures", [&] {
          for (const auto& C : LE->captures()) {
            J.object([&] {
              if (C.capturesThis()) { J.attribute("this", true); if (C.getCaptureKind() == LCK_StarThis) J.attribute("bycopy", true); }
              else if (C.capturesVariable()) { J.attribute("var", C.getCapturedVar()->getNameAsString()); if (C.getCaptureKind() == LCK_ByCopy) J.attribute("bycopy", true); }
            });
          }
        });
        lambdaQueue.emplace_back(LE, ln);
      } else if (auto* GS = dyn_cast<GotoStmt>(S)) {
        J.attribute("label", GS->getLabel()->getNameAsString());
      } else if (auto* LS = dyn_cast<LabelStmt>(S)) {
        J.attribute("label", std::string(LS->getName()));
      } else if (auto* CE3 = dyn_cast<CastExpr>(S)) {
        J.attribute("cast", CE3->getCastKindName());
      } else if (auto* TE = dyn_cast<CXXTryStmt>(S)) {
        J.attribute("ntry", static_cast<int64_t>(TE->getNumHandlers()));
      } else if (auto* CA = dyn_cast<CXXCatchStmt>(S)) {
        J.attribute("catchtype", CA->getExceptionDecl() ? typeStr(CA->getCaughtType()) : std::string("..."));
      } else if (auto* UETT = dyn_cast<UnaryExprOrTypeTraitExpr>(S)) {
        (void)UETT;
      } else if (auto* ILE = dyn_cast<InitListExpr>(S)) {
        (void)ILE;
      } else if (auto* MTE = dyn_cast<MaterializeTemporaryExpr>(S)) {
        (void)MTE;
      }
    });
    if (auto* L = dyn_cast<LambdaExpr>(S)) {
      for (const Stmt* C : L->children()) dumpStmt(st, C, fnName);
      return;
    }
    for (const Stmt* C : S->children()) dumpStmt(st, C, fnName);
  }

  void dumpCFG(FnState& st, const Decl* D, const Stmt* Body, const std::string& fnName, std::vector<const Stmt*>& extra) {
    CFG::BuildOptions BO;
    BO.setAllAlwaysAdd();
    BO.AddImplicitDtors = true;
    BO.AddInitializers = true;
    BO.AddEHEdges = false;
    BO.AddTemporaryDtors = false;
    BO.PruneTriviallyFalseEdges = false;
    std::unique_ptr<CFG> G = CFG::buildCFG(D, const_cast<Stmt*>(Body), &Ctx, BO);
    if (!G) { J.attribute("cfg_failed", true); return; }
    J.attribute("entry", static_cast<int64_t>(G->getEntry().getBlockID()));
    J.attribute("exit", static_cast<int64_t>(G->getExit().getBlockID()));
    J.attributeArray("blocks", [&] {
      for (const CFGBlock* B : *G) {
        J.object([&] {
          J.attribute("id", static_cast<int64_t>(B->getBlockID()));
          J.attributeArray("succ", [&] {
            for (auto I = B->succ_begin(); I != B->succ_end(); ++I) {
              const CFGBlock* S2 = I->getReachableBlock();
              if (S2) J.value(static_cast<int64_t>(S2->getBlockID()));
              else if (I->getPossiblyUnreachableBlock()) J.value(static_cast<int64_t>(I->getPossiblyUnreachableBlock()->getBlockID()));
              else J.value(nullptr);
            }
          });
          if (B->hasNoReturnElement()) J.attribute("noreturn", true);
          if (const Stmt* T = B->getTerminatorStmt()) {
            int tid = idOf(st, T);
            J.attribute("term", tid);
            J.attribute("termk", T->getStmtClassName());
          }
          if (const Stmt* TC = B->getTerminatorCondition()) {
            J.attribute("termcond", idOf(st, TC));
          }
          if (const Stmt* L = B->getLabel()) J.attribute("label", idOf(st, L));
          J.attributeArray("el", [&] {
            for (const CFGElement& E : *B) {
              if (auto S = E.getAs<CFGStmt>()) {
                const Stmt* SS = S->getStmt();
                int id = idOf(st, SS);
                if (id < 0) {
                  // synthesised statement (e.g. split DeclStmt): register and dump later
                  assignIds(st, SS);
                  extra.push_back(SS);
                  id = idOf(st, SS);
                }
                J.value(id);
              } else if (auto AD = E.getAs<CFGAutomaticObjDtor>()) {
                J.object([&] {
                  J.attribute("dtor", AD->getVarDecl()->getNameAsString());
                  J.attribute("dtype", typeStr(AD->getVarDecl()->getType()));
                });
              } else if (auto IN = E.getAs<CFGInitializer>()) {
                const CXXCtorInitializer* CI = IN->getInitializer();
                J.object([&] {
                  if (CI->isAnyMemberInitializer()) J.attribute("initfield", CI->getAnyMember()->getNameAsString());
                  else if (CI->isBaseInitializer()) J.attribute("initbase", typeStr(QualType(CI->getBaseClass(), 0)));
                  else J.attribute("initother", true);
                  if (CI->getInit()) {
                    int id = idOf(st, CI->getInit());
                    if (id < 0) { assignIds(st, CI->getInit()); extra.push_back(CI->getInit()); id = idOf(st, CI->getInit()); }
                    J.attribute("expr", id);
                  }
                  if (CI->isWritten()) J.attribute("written", true);
                });
              } else {
                J.object([&] { J.attribute("other", static_cast<int64_t>(E.getKind())); });
              }
            }
          });
        });
      }
    });
  }

  void dumpFunctionCommon(const FunctionDecl* FD, const Stmt* Body, const std::string& name, const std::string& mn, bool isLambda) {
    J.object([&] {
      J.attribute("name", name);
      J.attribute("mn", mn);
      J.attribute("file", relFile(FD->getLocation()));
      J.attribute("line", static_cast<int64_t>(lineOf(FD->getLocation())));
      J.attribute("endline", static_cast<int64_t>(lineOf(FD->getEndLoc())));
      J.attribute("ret", typeStr(FD->getReturnType()));
      if (isLambda) J.attribute("lambda", true);
      if (FD->isTemplateInstantiation()) J.attribute("instantiation", true);
      if (FD->isDependentContext()) J.attribute("dependent", true);
      if (auto* FPT = FD->getType()->getAs<FunctionProtoType>()) {
        if (!FD->isDependentContext()) {
          auto EST = FPT->getExceptionSpecType();
          if (!isUnresolvedExceptionSpec(EST) && FPT->isNothrow()) J.attribute("noexcept", true);
        }
      }
      if (auto* M = dyn_cast<CXXMethodDecl>(FD)) {
        J.attribute("cls", qname(M->getParent()));
        if (M->isConst()) J.attribute("const", true);
        if (M->isStatic()) J.attribute("static", true);
        if (M->isVirtual()) J.attribute("virtual", true);
        J.attribute("access", static_cast<int64_t>(M->getAccess()));
        J.attributeArray("overrides", [&] { for (auto* O : M->overridden_methods()) J.value(mangled(O)); });
        if (isa<CXXConstructorDecl>(M)) J.attribute("ctor", true);
        if (isa<CXXDestructorDecl>(M)) J.attribute("dtor", true);
      }
      if (FD->isDefaulted()) J.attribute("defaulted", true);
      J.attributeArray("params", [&] {
        for (auto* P : FD->parameters()) {
          J.object([&] {
            J.attribute("name", P->getNameAsString());
            J.attribute("type", typeStr(P->getType()));
            J.attribute("did", static_cast<int64_t>(reinterpret_cast<uintptr_t>(P->getCanonicalDecl()) & 0xffffffffffffULL));
          });
        }
      });
      FnState st;
      assignIds(st, Body);
      if (auto* C = dyn_cast<CXXConstructorDecl>(FD)) {
        for (auto* I : C->inits()) if (I->getInit()) assignIds(st, I->getInit());
      }
      J.attribute("body", idOf(st, Body));
      std::vector<const Stmt*> extra;
      // CFG first into a buffer? We need extra stmts in the stmts array, so emit cfg then stmts.
      J.attributeObject("cfg", [&] {
        if (!FD->isDependentContext()) dumpCFG(st, FD, Body, name, extra);
        else J.attribute("dependent", true);
      });
      J.attributeArray("stmts", [&] {
        dumpStmt(st, Body, name);
        if (auto* C = dyn_cast<CXXConstructorDecl>(FD)) {
          for (auto* I : C->inits()) if (I->getInit()) dumpStmt(st, I->getInit(), name);
        }
        std::set<const Stmt*> done;
        for (const Stmt* E : extra) if (done.insert(E).second) dumpStmt(st, E, name);
      });
      if (auto* C = dyn_cast<CXXConstructorDecl>(FD)) {
        J.attributeArray("inits", [&] {
          for (auto* I : C->inits()) {
            J.object([&] {
              if (I->isAnyMemberInitializer()) J.attribute("field", I->getAnyMember()->getNameAsString());
              else if (I->isBaseInitializer()) J.attribute("base", typeStr(QualType(I->getBaseClass(), 0)));
              if (I->getInit()) J.attribute("expr", idOf(st, I->getInit()));
              if (I->isWritten()) J.attribute("written", true);
            });
          }
        });
      }
    });
  }

  void dumpFunction(const FunctionDecl* FD) {
    if (!FD->doesThisDeclarationHaveABody()) return;
    const Stmt* Body = FD->getBody();
    if (Body == nullptr) return;
    if (!inRepo(FD->getLocation())) return;
    if (auto* M = dyn_cast<CXXMethodDecl>(FD)) if (M->getParent()->isLambda()) return; // via LambdaExpr
    std::string mn = mangled(FD);
    std::string name = qname(FD);
    std::string key = mn.empty() ? ("dep:" + name + "@" + relFile(FD->getLocation()) + ":" + std::to_string(lineOf(FD->getLocation()))) : mn;
    if (!seenFuncs.insert(key).second) return;
    dumpFunctionCommon(FD, Body, name, mn, false);
    drainLambdas();
  }

  void drainLambdas() {
    while (!lambdaQueue.empty()) {
      auto [LE, ln] = lambdaQueue.front();
      lambdaQueue.pop_front();
      const CXXMethodDecl* Op = LE->getCallOperator();
      if (Op == nullptr || Op->getBody() == nullptr) continue;
      std::string mn = mangled(Op);
      std::string key = "lambda:" + ln + ":" + mn;
      if (!seenFuncs.insert(key).second) continue;
      dumpFunctionCommon(Op, Op->getBody(), ln, mn, true);
    }
  }

  // field default initialisers dumped as pseudo functions
  void dumpFieldInit(const FieldDecl* F) {
    const Expr* I = F->getInClassInitializer();
    if (I == nullptr) return;
    std::string name = qname(F) + "::<init>";
    if (!seenFuncs.insert("fieldinit:" + name).second) return;
    J.object([&] {
      J.attribute("name", name);
      J.attribute("mn", "");
      J.attribute("fieldinit", qname(F));
      J.attribute("cls", qname(F->getParent()));
      J.attribute("file", relFile(F->getLocation()));
      J.attribute("line", static_cast<int64_t>(lineOf(F->getLocation())));
      FnState st;
      assignIds(st, I);
      J.attribute("body", idOf(st, I));
      J.attributeObject("cfg", [&] { J.attribute("none", true); });
      J.attributeArray("stmts", [&] { dumpStmt(st, I, name); });
    });
    drainLambdas();
  }

  void dumpGlobalInit(const VarDecl* V) {
    const Expr* I = V->getInit();
    if (I == nullptr) return;
    std::string name = qname(V) + "::<init>";
    if (V->isStaticLocal()) {
      if (auto* FD = dyn_cast<FunctionDecl>(V->getDeclContext())) name = qname(FD) + "::" + V->getNameAsString() + "::<init>";
    }
    if (!seenFuncs.insert("varinit:" + name + relFile(V->getLocation()) + std::to_string(lineOf(V->getLocation()))).second) return;
    J.object([&] {
      J.attribute("name", name);
      J.attribute("mn", "");
      J.attribute("varinit", qname(V));
      J.attribute("file", relFile(V->getLocation()));
      J.attribute("line", static_cast<int64_t>(lineOf(V->getLocation())));
      FnState st;
      assignIds(st, I);
      J.attribute("body", idOf(st, I));
      J.attributeObject("cfg", [&] { J.attribute("none", true); });
      J.attributeArray("stmts", [&] { dumpStmt(st, I, name); });
    });
    drainLambdas();
  }
};

struct Collected {
  std::vector<const FunctionDecl*> funcs;
  std::vector<const CXXRecordDecl*> records;
  std::vector<const EnumDecl*> enums;
  std::vector<const VarDecl*> statics;
  std::vector<const FieldDecl*> fieldInits;
};

class Collector : public RecursiveASTVisitor<Collector> {
public:
  Dumper& D;
  Collected& C;
  Collector(Dumper& D, Collected& C) : D(D), C(C) {}
  bool shouldVisitTemplateInstantiations() const { return true; }
  bool shouldVisitImplicitCode() const { return false; }

  bool VisitFunctionDecl(FunctionDecl* FD) {
    if (FD->doesThisDeclarationHaveABody() && D.inRepo(FD->getLocation())) C.funcs.push_back(FD);
    return true;
  }
  bool VisitCXXRecordDecl(CXXRecordDecl* RD) {
    if (RD->isThisDeclarationADefinition() && !RD->isLambda() && D.inRepo(RD->getLocation())) C.records.push_back(RD);
    return true;
  }
  bool VisitEnumDecl(EnumDecl* ED) {
    if (ED->isThisDeclarationADefinition() && D.inRepo(ED->getLocation())) C.enums.push_back(ED);
    return true;
  }
  bool VisitVarDecl(VarDecl* V) {
    if (isa<ParmVarDecl>(V)) return true;
    if (V->hasGlobalStorage() && D.inRepo(V->getLocation()) && !V->isTemplated()) C.statics.push_back(V);
    return true;
  }
  bool VisitFieldDecl(FieldDecl* F) {
    if (F->hasInClassInitializer() && D.inRepo(F->getLocation()) && !F->getParent()->isDependentContext()) C.fieldInits.push_back(F);
    return true;
  }
};

class Consumer : public ASTConsumer {
public:
  std::string Root, Out;
  Consumer(std::string root, std::string out) : Root(std::move(root)), Out(std::move(out)) {}

  void HandleTranslationUnit(ASTContext& Ctx) override {
    std::error_code EC;
    llvm::raw_fd_ostream OS(Out, EC);
    if (EC) { llvm::errs() << "cannot open " << Out << "\n"; return; }
    llvm::json::OStream J(OS, 0);
    Dumper D(Ctx, J, Root);
    Collected C;
    Collector V(D, C);
    V.TraverseDecl(Ctx.getTranslationUnitDecl());
    bool hadErrors = Ctx.getDiagnostics().hasErrorOccurred();
    J.object([&] {
      J.attribute("root", Root);
      J.attribute("errors", hadErrors);
      J.attributeArray("functions", [&] {
        for (auto* FD : C.funcs) D.dumpFunction(FD);
        for (auto* F : C.fieldInits) D.dumpFieldInit(F);
        for (auto* Vd : C.statics) D.dumpGlobalInit(Vd);
      });
      J.attributeArray("records", [&] {
        std::set<std::string> seen;
        for (auto* RD : C.records) {
          if (RD->isDependentContext()) {
            // keep template patterns too, flagged
          }
          std::string qn = D.qname(RD);
          std::string key = qn;
          if (auto* S = dyn_cast<ClassTemplateSpecializationDecl>(RD)) {
            std::string s; llvm::raw_string_ostream os(s);
            S->getNameForDiagnostic(os, PrintingPolicy(Ctx.getLangOpts()), true);
            key = os.str();
          }
          if (!seen.insert(key).second) continue;
          J.object([&] {
            J.attribute("name", qn);
            J.attribute("key", key);
            J.attribute("file", D.relFile(RD->getLocation()));
            J.attribute("line", static_cast<int64_t>(D.lineOf(RD->getLocation())));
            if (RD->isDependentContext()) J.attribute("dependent", true);
            J.attributeArray("bases", [&] { for (const auto& B : RD->bases()) J.value(D.typeStr(B.getType())); });
            J.attributeArray("fields", [&] {
              for (auto* F : RD->fields()) {
                J.object([&] {
                  J.attribute("name", F->getNameAsString());
                  J.attribute("type", D.typeStr(F->getType()));
                  J.attribute("ctype", D.typeStr(F->getType().getCanonicalType()));
                  J.attribute("access", static_cast<int64_t>(F->getAccess()));
                  if (F->isMutable()) J.attribute("mutable", true);
                  if (F->hasInClassInitializer()) J.attribute("hasinit", true);
                  J.attribute("line", static_cast<int64_t>(D.lineOf(F->getLocation())));
                });
              }
            });
            J.attributeArray("statics", [&] {
              for (auto* Dd : RD->decls()) if (auto* Vd = dyn_cast<VarDecl>(Dd)) {
                J.object([&] { J.attribute("name", Vd->getNameAsString()); J.attribute("type", D.typeStr(Vd->getType())); });
              }
            });
            J.attributeArray("methods", [&] {
              for (auto* M : RD->methods()) {
                J.object([&] {
                  J.attribute("name", M->getNameAsString());
                  J.attribute("mn", D.mangled(M));
                  J.attribute("access", static_cast<int64_t>(M->getAccess()));
                  if (M->isConst()) J.attribute("const", true);
                  if (M->isVirtual()) J.attribute("virtual", true);
                  if (M->isStatic()) J.attribute("static", true);
                  if (M->isDeleted()) J.attribute("deleted", true);
                  if (M->isDefaulted()) J.attribute("defaulted", true);
                  if (M->isImplicit()) J.attribute("implicit", true);
                  if (auto* CC = dyn_cast<CXXConstructorDecl>(M)) {
                    J.attribute("ctor", true);
                    if (CC->isCopyConstructor()) J.attribute("copy", true);
                    if (CC->isMoveConstructor()) J.attribute("move", true);
                    if (CC->isExplicit()) J.attribute("explicit", true);
                  }
                  if (M->isCopyAssignmentOperator()) J.attribute("copyassign", true);
                  if (M->isMoveAssignmentOperator()) J.attribute("moveassign", true);
                  J.attribute("ret", D.typeStr(M->getReturnType()));
                  J.attribute("line", static_cast<int64_t>(D.lineOf(M->getLocation())));
                  J.attributeArray("params", [&] { for (auto* P : M->parameters()) J.value(D.typeStr(P->getType())); });
                  J.attributeArray("overrides", [&] { for (auto* O : M->overridden_methods()) J.value(D.mangled(O)); });
                });
              }
            });
            if (!RD->isDependentContext()) {
              J.attributeObject("special", [&] {
                J.attribute("copyctor_deleted", RD->defaultedCopyConstructorIsDeleted());
                J.attribute("has_user_copyctor", RD->hasUserDeclaredCopyConstructor());
                J.attribute("has_user_copyassign", RD->hasUserDeclaredCopyAssignment());
                J.attribute("has_user_movector", RD->hasUserDeclaredMoveConstructor());
                J.attribute("has_user_dtor", RD->hasUserDeclaredDestructor());
                J.attribute("polymorphic", RD->isPolymorphic());
              });
            }
            J.attributeArray("friends", [&] {
              for (auto* F : RD->friends()) {
                if (auto* T = F->getFriendType()) J.value(D.typeStr(T->getType()));
                else if (auto* ND = F->getFriendDecl()) J.value(D.qname(ND));
              }
            });
          });
        }
      });
      J.attributeArray("enums", [&] {
        std::set<std::string> seen;
        for (auto* ED : C.enums) {
          std::string qn = D.qname(ED);
          if (!seen.insert(qn).second) continue;
          J.object([&] {
            J.attribute("name", qn);
            J.attribute("file", D.relFile(ED->getLocation()));
            J.attribute("line", static_cast<int64_t>(D.lineOf(ED->getLocation())));
            J.attribute("underlying", D.typeStr(ED->getIntegerType()));
            J.attributeArray("enumerators", [&] {
              for (auto* E : ED->enumerators()) {
                J.object([&] { J.attribute("name", E->getNameAsString()); J.attribute("val", E->getInitVal().getExtValue()); });
              }
            });
          });
        }
      });
      J.attributeArray("statics", [&] {
        std::set<std::string> seen;
        for (auto* Vd : C.statics) {
          std::string qn = D.qname(Vd);
          std::string owner;
          if (Vd->isStaticLocal()) if (auto* FD = dyn_cast<FunctionDecl>(Vd->getDeclContext())) owner = D.qname(FD);
          std::string key = owner + "|" + qn + "|" + D.relFile(Vd->getLocation()) + ":" + std::to_string(D.lineOf(Vd->getLocation()));
          if (!seen.insert(key).second) continue;
          J.object([&] {
            J.attribute("name", qn);
            J.attribute("type", D.typeStr(Vd->getType()));
            J.attribute("file", D.relFile(Vd->getLocation()));
            J.attribute("line", static_cast<int64_t>(D.lineOf(Vd->getLocation())));
            if (!owner.empty()) J.attribute("owner", owner);
            if (Vd->isStaticLocal()) J.attribute("staticlocal", true);
            if (Vd->isStaticDataMember()) J.attribute("staticmember", true);
            if (Vd->getType().isConstQualified() || Vd->isConstexpr()) J.attribute("const", true);
            if (Vd->isConstexpr()) J.attribute("constexpr", true);
            if (Vd->getTLSKind() != VarDecl::TLS_None) J.attribute("tls", true);
            if (Vd->isInline()) J.attribute("inline", true);
          });
        }
      });
    });
    OS << "\n";
  }
};

class Action : public ASTFrontendAction {
public:
  std::unique_ptr<ASTConsumer> CreateASTConsumer(CompilerInstance& CI, llvm::StringRef) override {
    return std::make_unique<Consumer>(OptRoot.getValue(), OptOut.getValue());
  }
};

} // namespace

int main(int argc, const char** argv) {
  auto Exp = CommonOptionsParser::create(argc, argv, Cat);
  if (!Exp) { llvm::errs() << llvm::toString(Exp.takeError()); return 2; }
  ClangTool Tool(Exp->getCompilations(), Exp->getSourcePathList());
  int rc = Tool.run(newFrontendActionFactory<Action>().get());
  return rc;
}
