#!/usr/bin/env python3
"""Rebuild section 9 of DESIGN.md: hand-written prose (docs/design_9_head.md, docs/design_9_tail.md) around the tables generated from the
machinery's own outputs (tools/gen_design_tables.py: evidence/*.json, known_findings.json, seeded/MATRIX.json)."""
import os, subprocess
V = os.path.dirname(os.path.dirname(os.path.abspath(__file__)))
s = open(os.path.join(V, 'DESIGN.md')).read()
i = s.index('## 9. As built')
head = open(os.path.join(V, 'docs', 'design_9_head.md')).read()
tail = open(os.path.join(V, 'docs', 'design_9_tail.md')).read()
tables = subprocess.run(['python3', os.path.join(V, 'tools', 'gen_design_tables.py')], capture_output=True, text=True, check=True).stdout
log = subprocess.run(['git', '-C', '/repo', 'log', '--format=%s'], capture_output=True, text=True).stdout.splitlines()
total = sum(1 for l in log if l.startswith('fix:'))
r3 = subprocess.run(['git', '-C', '/repo', 'log', '--format=%s', '22cf9e4..HEAD'], capture_output=True, text=True).stdout.splitlines()
tail = tail.replace('FIXCOUNT', str(sum(1 for l in r3 if l.startswith('fix:')))).replace('FIXTOTAL', str(total))
open(os.path.join(V, 'DESIGN.md'), 'w').write(s[:i] + head.rstrip('\n') + '\n\n\n' + tables.rstrip('\n') + '\n\n\n' + tail.rstrip('\n') + '\n')
print('DESIGN.md section 9 rebuilt')
