#!/usr/bin/env python3
"""Emit the as-built tables of DESIGN.md from the machinery's own outputs: rules per property (evidence/*.json), findings (known_findings.json),
seeded catch matrix (seeded/MATRIX.json written by tools/selftest.py --seeded --all-properties --matrix)."""
import json, os, glob
V = os.path.dirname(os.path.dirname(os.path.abspath(__file__)))
out = []
out.append('### 9.2 Rules as implemented (from evidence/*.json of the last run)\n')
for p in sorted(glob.glob(os.path.join(V, 'evidence', 'C*.json'))):
    d = json.load(open(p))
    cov = d['coverage']
    out.append('**%s** — %d rule instances, %d non-trivial.' % (d['property_id'], cov.get('evaluations', 0), cov.get('distinct_nontrivial', 0)))
    out.append('')
    out.append('| rule | instances (min) | what it decides |')
    out.append('|---|---|---|')
    for r in cov.get('rules', []):
        out.append('| %s | %d (%d) | %s |' % (r['id'], r['instances'], r['min_instances'], r['text'].replace('|', '\\|')))
    out.append('')
kf = json.load(open(os.path.join(V, 'known_findings.json')))['findings']
out.append('### 9.3 Genuine defects found (known_findings.json)\n')
out.append('| property | rule | status | commit | what failed |')
out.append('|---|---|---|---|---|')
for e in kf:
    w = e['what'].replace('|', '\\|')
    out.append('| %s | %s | %s | %s | %s |' % (e['property'], e['rule'], e['status'], e.get('commit', ''), w[:400]))
out.append('')
mp = os.path.join(V, 'seeded', 'MATRIX.json')
if os.path.exists(mp):
    m = json.load(open(mp))
    out.append('### 9.4 Which check catches which seeded change (seeded/MATRIX.json)\n')
    out.append('| seeded change | target property | caught by target check | other checks that also fire |')
    out.append('|---|---|---|---|')
    for k in sorted(m):
        e = m[k]
        out.append('| %s | %s | %s | %s |' % (k, e['property'], 'yes' if e['target_caught'] else '**no**', ', '.join(e['also']) or '—'))
    out.append('')
print('\n'.join(out))
