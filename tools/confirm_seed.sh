#!/bin/bash
# confirm_seed.sh <Cxx> <n>   — independently confirms seeded change ${SEEDBASE:-/tmp/mut}/out/<Cxx>-<n> in the scratch worktree /tmp/mut/<Cxx>:
#   patch applies to /repo HEAD, patched tree compiles, pinned suite unchanged (133 pass + 2 NOT_BUILT), demo PASS before / FAIL after.
# On success copies patch.diff, demo.cpp, notes.txt to /verif/seeded/<Cxx>-<n>/ and writes meta.json.
P=$1; N=$2; ID=$P-$N; SRC=${SEEDBASE:-/tmp/mut}/out/$ID; W=${SEEDBASE:-/tmp/mut}/$P; L=${SEEDBASE:-/tmp/mut}/confirm-$ID
[ -f $SRC/patch.diff ] || { echo "$ID: no patch"; exit 2; }
git -C $W checkout -q -- . ; git -C $W status --short | grep -v _build | grep -q . && { echo "$ID: worktree dirty"; exit 2; }
git -C /repo apply --check $SRC/patch.diff 2>/dev/null; APPLIES_HEAD=$?
mkdir -p $L
/tmp/mutkit/build_lib.sh $W $L/base > $L/base.log 2>&1 || { echo "$ID: base lib failed"; exit 2; }
g++ -std=c++20 -O0 -w -DNDEBUG $(cat $L/base/inc.txt) $SRC/demo.cpp $L/base/libccl.a -o $L/demo_base > $L/demo_base.log 2>&1 || { echo "$ID: demo does not build on base"; exit 2; }
timeout 120 $L/demo_base > $L/out_base.txt 2>&1; RB=$?
git -C $W apply $SRC/patch.diff || { echo "$ID: patch does not apply to worktree"; exit 2; }
/tmp/mutkit/build_lib.sh $W $L/mut > $L/mut.log 2>&1; grep -q FAIL $L/mut.log && { echo "$ID: patched tree does not compile"; git -C $W checkout -q -- .; exit 2; }
g++ -std=c++20 -O0 -w -DNDEBUG $(cat $L/mut/inc.txt) $SRC/demo.cpp $L/mut/libccl.a -o $L/demo_mut > $L/demo_mut.log 2>&1 || { echo "$ID: demo does not build on patched tree"; git -C $W checkout -q -- .; exit 2; }
timeout 120 $L/demo_mut > $L/out_mut.txt 2>&1; RM=$?
/tmp/mutkit/run_tests.sh $W > $L/tests.txt 2>&1
PASSLINE=$(grep "tests passed" $L/tests.txt)
NB=$(grep -c "NOT_BUILT" $L/tests.txt)
FAILED=$(grep -E "^\s+[0-9]+ - " $L/tests.txt | grep -v NOT_BUILT | wc -l)
git -C $W checkout -q -- .
OK=1; [ $RB -eq 0 ] || OK=0; [ $RM -ne 0 ] || OK=0; [ $FAILED -eq 0 ] || OK=0; echo "$PASSLINE" | grep -q "${SEEDBASELINE:-2 tests failed out of 135}" || OK=0
echo "$ID: demo base rc=$RB patched rc=$RM; suite: $PASSLINE (other failures: $FAILED); applies to /repo HEAD: $([ $APPLIES_HEAD -eq 0 ] && echo yes || echo no) => $([ $OK -eq 1 ] && echo CONFIRMED || echo REJECTED)"
if [ $OK -eq 1 ]; then
  D=/verif/seeded/$ID; mkdir -p $D; cp $SRC/patch.diff $SRC/demo.cpp $D/; [ -f $SRC/notes.txt ] && cp $SRC/notes.txt $D/
  python3 - "$P" "$ID" "$L" "$APPLIES_HEAD" "$PASSLINE" <<'PY'
import json, sys
p, ident, l, ah, passline = sys.argv[1:6]
notes = open('/verif/seeded/%s/notes.txt' % ident, errors='replace').read() if __import__('os').path.exists('/verif/seeded/%s/notes.txt' % ident) else ''
meta = {
 'id': ident, 'property': p,
 'needs_to_manifest': 'see notes.txt (written by the independent sub-agent that produced the change)',
 'confirmed': {
   'by': 'tools/confirm_seed.sh in a scratch worktree of /repo (%s)' % p,
   'compiles': True,
   'suite': passline.strip(),
   'demo_on_unmodified': 'exit 0: ' + open(l + '/out_base.txt', errors='replace').read()[-300:].strip(),
   'demo_on_patched': 'exit non-zero: ' + open(l + '/out_mut.txt', errors='replace').read()[-300:].strip(),
   'patch_applies_to_repo_head': ah == '0',
 },
 'ran': ['build_lib.sh (g++ -std=c++20 -O0 -DNDEBUG, 7 TUs) on clean and patched worktree', 'demo.cpp linked against both', 'run_tests.sh (cmake/ninja/ctest pinned suite) on the patched worktree'],
}
json.dump(meta, open('/verif/seeded/%s/meta.json' % ident, 'w'), indent=1, ensure_ascii=False)
PY
fi
rm -rf $L
