#!/usr/bin/env python3
"""Regenerates MANIFEST.json from tools/manifest_src.py (single source for claims, notes and N/A reasons)."""
import json, os, sys
sys.path.insert(0, os.path.dirname(os.path.abspath(__file__)))
import manifest_src as M
checks = []
for pid, c in sorted(M.CHECKS.items()):
    checks.append({
        'property_id': pid,
        'quick_cmd': './bin/check %s --tier quick' % pid,
        'thorough_cmd': './bin/check %s --tier thorough' % pid,
        'evidence_file': 'evidence/%s.json' % pid,
        'replay_cmd_template': './bin/check %s --replay {path}' % pid,
        'engine': 'cclfacts+rules',
        'level_claimed': {'category': 'other', 'text': c['text'], 'design_ref': 'DESIGN.md section 4, ' + pid},
        'level_note': c['note'],
        'technique': c['technique'],
    })
man = {
    'version': 1,
    'setup_cmd': './setup.sh',
    'hooks': {'guard': 'CONCEPTCORE_VERIF', 'enable': 'none needed: static analysis reads the sources, no instrumentation is compiled in',
              'baseline_off_cmd': 'cmake --build /repo/_build -j16; ctest --test-dir /repo/_build -j8 --timeout 900',
              'source_commits': [], 'add_only': True},
    'engines': [
        {'name': 'cclfacts', 'path': 'tools/cclfacts/cclfacts.cc', 'serves_properties': sorted(M.CHECKS), 'kind_free_text': 'LibTooling extractor: typed AST + CFG of every repo function, class/enum/static inventories'},
        {'name': 'rules', 'path': 'rules/', 'serves_properties': sorted(M.CHECKS), 'kind_free_text': 'python rule modules over the fact database: MUST-CALL/ORDER/CO-UPDATE path queries, table extraction and finite-domain evaluation'},
    ],
    'checks': checks,
    'notes': M.NOTES,
    'not_applicable': [{'property_id': p, 'reason': r} for p, r in sorted(M.NOT_APPLICABLE.items())],
}
with open(os.path.join(os.path.dirname(os.path.dirname(os.path.abspath(__file__))), 'MANIFEST.json'), 'w') as fh:
    json.dump(man, fh, indent=1, ensure_ascii=False)
    fh.write('\n')
print('MANIFEST.json: %d checks, %d not applicable' % (len(checks), len(man['not_applicable'])))
