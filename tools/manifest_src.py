NOTES = ('Static analysis only: every verdict is computed from the current sources under /repo (typed clang AST, CFG, tables in the source); nothing of /repo is executed. '
         'Exit 0 pass / 1 VIOLATION / 2 ANALYSIS-BROKEN (a vanished anchor or fewer rule instances than confirmed by hand). All 20 properties are claimed, each for the clauses '
         'named in its level text; what is not decided is in its note and in DESIGN.md section 6. The thorough tier widens the finite domains of the evaluated rules: '
         'C02/C03 type universe 23 -> 49 typifications, C05/C06 add every witness sentence of the tree grammar (one per production x operand root kind x position), '
         'C01 quantifier domains up to 5 elements, C20 interval window 0..8; the structural rules are exhaustive over the source in both tiers.')

CHECKS = {
 'C11': {
  'technique': 'static MUST-CALL / ORDER / CO-UPDATE path rules on the CFG + finite-domain decision table of the reset loop',
  'text': 'Decides the cache-invalidation discipline that the behavioural property needs on every path of every model mutator: each public '
          'mutator that changes a value source reaches RSModel::ResetDependants before a success exit (before the edge-destroying call for erasure), '
          'resets the target\'s own value and flag, the reset walks the transitive outputs and skips only base sets, reset helpers clear every '
          'per-constituent container, RecalculateAll clears first and iterates topologically. Holds for all histories because it holds for all paths of the code.',
  'note': 'Does not decide that recalculated values are equal to fresh ones (value-level). Trusts clang 14 AST/CFG and the call resolution of the extractor. As built after the audits: r1 treats insertions, renaming and renumbering as value sources '
          '(no insert/load exemption left), r10 PRUNE-AGAINST-NEW-TYPES (erasure prunes after the typings changed), r11 STRUCTURE-GUARD (E()/T()/B() only under a test of that object\'s structure), '
          'r12 VALUES-TOTAL (the values facet reads an optional only under has_value(): validation of stored data never throws out of the middle of an invalidation). Five audit findings repaired.',
 },
 'C20': {
  'technique': 'AST summarisation + exhaustive evaluation over order types (finite quotient domain) and the 256-value lead-byte table; structural sibling rule for the iterator',
  'text': 'Decides the interval half of the property exactly: every StrRange relation, Intersect and the Merge step is summarised from the typed AST and '
          'evaluated on all order types of the four end points, which is complete for all integers because the bodies only compare; compared with the '
          'end-point definitions (DESIGN.md Appendix A) plus duality/symmetry laws. UTF8CharSize is tabulated over its whole domain; the two iterator '
          'advance routines are checked structurally (advance by SymbolSize, index by one, end test).',
  'note': 'String index arithmetic (SplitBySymbol, TrimWhitespace, IsInteger, Substr, SizeInCodePoints) is NOT decided: it quantifies over unbounded strings and no sound '
          'abstract interpreter for this C++ is available here. Overlaps on empty ranges is only required to be symmetric (class documents position semantics). Trusts the mini-evaluator (engine/evalmini.py).',
 },
 'C14': {
  'technique': 'effect summaries of the graph mutators (edge-list pairing, uid-table co-update) + structural rules on traversal code (edge direction, colour protocol via guard analysis with Kleene evaluation, closure shape, SCC pass direction, mirror sibling)',
  'text': 'Decides the representation invariants every query depends on (both edge lists updated symmetrically on all paths of all mutators, uid table in step with the vertex array, '
          'tombstones edge-free and excluded from emitting loops) and the structural preconditions of each traversal (direction per query, three-colour protocol, worklist closure shape, '
          'Kosaraju direction of the component pass, UpdateFor guard). Because these hold for every path of the code they hold after every update history.',
  'note': 'Does not decide that the answers are exact as data; a rewrite of a traversal into a different algorithm (e.g. recursive DFS) makes the corresponding rule ANALYSIS-BROKEN (exit 2), not a pass. Trusts clang AST/CFG and the normal form in engine/shape.py.',
 },
 'C06': {
  'technique': 'model extraction (LALR tables from the compiled unit + abstract interpretation of the semantic actions over symbolic tokens) and table-level queries; bison re-generation as sync obligation',
  'text': 'Decides the grammar-level content of the property on the parser model: the committed tables are exactly bison(RSParserImpl.y) without conflicts and TokenID values denote the same terminals; '
          'the grouping of every ordered pair of infix operators, prefix operators, quantifier scope, product flattening and redundant parentheses equals the documented table; at every reduction '
          'the node range equals the span of the yield, children nest inside parents and are in source order, for a corpus that exercises every non-error production. Token kinds, not text, are the inputs, '
          'so the verdict covers every spelling, whitespace placement and both syntaxes.',
  'note': 'Trusts bison 3.8.2 for the sync comparison only, the action interpreter (engine/evalmini.py) and the documented precedence table tables/precedence.json. Does not decide that RE/flex reports columns in code points, nor sentences longer than the corpus shapes (the automaton is finite, the corpus covers every production, but not every state/lookahead pair).',
 },
 'C05': {
  'technique': 'model extraction + model-level round trip: generator visitor methods partially evaluated per tree shape, lexer DFA read from the generated direct-coded lexers, LALR automaton with summarised actions; table agreement of spellings vs lexers',
  'text': 'Decides, on models extracted from the current source, that print -> lex -> parse returns the same tree for every tree of a family that realises the quantifier of the property: every operator as parent of every operator '
          'as left and right child (both groupings, both families), operators under every prefix/functional parent and in every binder, every constructor of the corpus, Greek local names; in MATH and ASCII. '
          'Also: every fixed spelling lexes to its own token in its syntax, the transliteration table is the documented one, tree equality ignores positions, both lexers attach the same payloads.',
  'note': 'The family is finite (about 700 distinct trees x 2 syntaxes); deeper nestings are covered only in so far as bracket decisions depend on (parent id, child id, position) alone, which is what the generator code reads. '
          'Trusts the partial evaluator (engine/evalmini.py) and the lexer/parser model readers. Names colliding under transliteration are excluded by the statement.',
 },
 'C18': {
  'technique': 'interprocedural mod-set analysis over the resolved call graph (including CRTP visitor dispatch) vs. whole-member kills of the reset step; dominance of the reset on the CFG; inventory of mutable statics',
  'text': 'Decides history independence as reset completeness: for each long-lived analyser (TypeAuditor, ValueAuditor, ASTInterpreter, ParserState/RSParser, Parser, Auditor, Interpreter, both lexers) every member that any code reachable '
          'from its entry point may modify is re-initialised by the reset step that dominates the entry point, or is RAII-restored, or is a sub-analyser driven only through its own verified entry point; the error log is cleared on every path; '
          'every mutable static (shared generators, literal parser) is reset before use, never written, or a listed singleton. Equal initial state for every call is the structural condition for "result depends only on this input".',
  'note': 'Assumes the analysers are deterministic functions of their members and arguments (no hidden state outside the inventoried statics; third-party RE/flex matcher state is rebound by in()). Exemption tables (configuration members, error sinks) are in rules/C18.py with one reason each.',
 },
 'C09': {
  'technique': 'CO-UPDATE / WHO-MAY-CALL / GUARDED path rules on the CFG and resolved call graph, no-mutation-before-refusal via mod-set + path enumeration, finite-domain evaluation of the kind tables',
  'text': 'Decides the structural conditions for the identity/ordering invariants on every path of every mutator: a constituent enters and leaves all four views of RSCore together, only the tracking-aware eraser reaches RSCore::Erase, '
          'tracked constituents are guarded before the core is touched, every refusing return of the identity/list/core/form mutators is unreachable after a state change (callees refuse cleanly, checked recursively), identifier and alias are registered on every path, '
          'and the priority / letter / kind tables are evaluated over all 8x8 kind pairs against base > constant > structured > derived and the letter bijection.',
  'note': 'Does not decide list order after arbitrary MoveBefore sequences beyond what the priority table implies, nor uniqueness of random identifiers (EntityGenerator::NewUID loops until insertion succeeds; trusted). Exemption: RSCore::ResetAliases re-registers all entities by design.',
 },
 'C07': {
  'technique': 'typed write classification (mod-set events on the storage) + MUST-CALL refresh families on the CFG, typestate for deferred loaders over the call graph, structural order rules for the re-analysis routines',
  'text': 'Decides the cache-refresh discipline that incremental = from-scratch requires on every path: each write of alias / definition / kind / membership in Schema and of alias / term text / term form / text definition / membership in Thesaurus '
          'is followed before any success exit by exactly the refreshes that kind of write needs (whole-graph invalidation + full re-analysis for names and membership, per-constituent graph update + TriggerParse for one definition, term/definition graph updates + re-resolution for texts); '
          'deferred loaders are dirty until UpdateState on every caller chain; TriggerParse/UpdateState/OnTermChange walk the full dependency order after the reset with no early exit; lazy graphs rebuild completely; ParseCst stores one consistent auditor run.',
  'note': 'Schema::SetDefinitionFor may skip the graph refresh and the re-analysis of dependants only on the branch where FindExpr(new text) returns the constituent itself (identical syntax tree); on that branch the constituent itself must be re-audited after its own record is cleared (r1 same-tree-positions, r6 same-tree: audit finding repaired - the stored tree kept the token positions of the previous text). AUDIT-ON-RESET-STATE (r6) decides that every other audit runs on cleared records of the whole dependants closure. Does not decide that the graph updater extracts exactly the mentioned globals, nor equality of results with a fresh build.',
 },
 'C10': {
  'technique': 'writer/reader table agreement extracted from the typed AST (JSON keys with their source/destination members), exhaustive check of the enum string tables, ORDER rule for the load protocol',
  'text': 'Decides the structural half of lossless save/load: for all to_json/from_json pairs and the Extract*/Load* helpers every key looked up by a reader is produced by its writer under the same path, every persistent key written is read back '
          '(derived keys listed with reasons), the member written under a key is the member it is loaded into, every serialised enum table is a bijection covering all enumerators, the model is loaded core -> finalise -> data against the loaded typification, '
          'and keyed containers are written with their keys.',
  'note': 'Value-level equality of a reloaded object and stability of the re-serialised document are not decided. Model values are packed by SDCompact (decided under C16). The finding that TextInterpretation was written without its interpretant ids is repaired (known_findings.json, status fixed).',
 },
 'C16': {
  'technique': 'sibling (writer/reader) agreement rules over the typed AST: dispatch tables, argument identity, per-case cell partition of the visitors, loop ranges; who-may-call + guard dominance for the unchecked reads',
  'text': 'Decides that the packer and the unpacker of the compact table agree on its shape for every typification (mirror dispatch, the empty-set placeholder written and skipped for the same type with one cell per basic/collection level, '
          'same tuple component range, cardinality cell plus one row per element) and that every unchecked table read of the unpacker is only reachable under the cursor bounds test of UnpackFor, element loops are bounded by the row count and trailing rows are rejected.',
  'note': 'Round-trip equality as values and behaviour for hostile counts beyond the structural guards (negative or huge numbers) are not decided. A re-design of the encoding makes the sibling rules ANALYSIS-BROKEN rather than pass.',
 },
 'C15': {
  'technique': 'summarisation of loop-comprehension set code into membership formulas + exhaustive truth tables; structural rules for the copy-on-write gate, the derivation/orientation of the ordering, builder discipline (data-flow from the factory) and lazy iteration order',
  'text': 'Decides: (a) value semantics - the handle holds only the shared pointer, the only mutable hand-outs are ModifyB/UniqueData and UniqueData tests use_count() on every path and clones when shared, set copies clone; '
          '(b) each set operation, reduced to a membership formula over (e in this, e in rhs), equals its definition on all four cases and builds its result only by AddElement on a fresh enumerated set; '
          '(c) ==/< are derived from Compare, element comparison is a trichotomy, tuple/set/variant comparison compare this against rhs lexicographically / cardinality-first; (d) every AddElement receiver in the library starts from an enumerated factory; '
          '(e) the lazy product enumerates with the last component fastest, matching tuple comparison.',
  'note': 'Agreement of the power-set enumeration order with the set ordering and the lifetime of references into the lazy-element cache (possible finding F-C15-1, never replayed, not listed) are not decided.',
 },
 'C01': {
  'technique': 'partial evaluation of the evaluator visitor methods on abstract operands (operator decision tables over finite complete domains) compared with textbook semantics; structural binder / fresh-name / enumeration-order rules',
  'text': 'Decides the operator-level content of the property: every case of the evaluator switches (connectives incl. the short-circuit path, negation, + - x, the four comparisons on all order types, = and !=, union/intersection/difference/symmetric difference with operand order, '
          'membership and subset predicates as formulas over eq/sub/in, both quantifiers over all body-value vectors of domains up to 3 incl. empty, the declarative set-builder) equals its definition; the set operations themselves equal their membership definitions; '
          'every binder sets its slot before the body and counts iterations, ITERATE blocks re-evaluate their domain, inlined function bodies get never-reused fresh names, lazy products enumerate in comparison order, and no evaluation code reads the syntax variant.',
  'note': 'The value of whole programs (nesting, recursion and imperative control flow, capture-freedom of argument substitution, equality of lazy and enumerated sets as values) is NOT decided; this is the structural part that is necessary for it. The oracle is set theory / propositional logic written in rules/C01.py, not the current code.',
 },
 'C17': {
  'technique': 'writer/reader table agreement (reference syntax constants, grammeme tables over the whole enum) and structural data-flow rules (scan resume position, units of lengths, accumulation and shifting of ranges, guards of throwing operations)',
  'text': 'Decides: the printed form of both reference kinds splits back into its fields with the parser\'s own constants; TAG_NAMES and TAG_MAP are mutually inverse on all grammemes; the scanner reports [@ .. after }) and resumes exactly at the end of the previous reference; '
          'every recorded length of a resolved reference is a code-point count, the new range is old start + accumulated difference and the difference accumulates resolved - unresolved; Insert/EraseIn shift later references by the same amount; Referals = entity references; '
          'throwing operations in the reference parser are guarded.',
  'note': 'Byte-exact preservation of text between references and the UTF-8 arithmetic of Substr/iterators (C20 string clause) are not decided. Two reference-parser crashes found by r6 were repaired (fix commits 7cddfef, 5695371).',
 },
 'C13': {
  'technique': 'structural data-flow rules (what is copied, in which order, through which copy routine), fixpoint-shape rule for a selection that grows while it is read, shared graph/refresh rules',
  'text': 'Decides: the basis is exactly SortSubset(ExpandInputs(selection)) copied in bulk and renumbered; the maximal part is computed to a fixpoint (or in dependency order), with the membership test keyed on an empty definition and on all direct inputs, '
          'returned in list order, copied in bulk and renumbered; both refuse before building anything; SortSubset keeps list order; the backward closure and the alias-renumbering refresh they depend on satisfy the C14 / C07 rules.',
  'note': 'Preservation of correctness status and typification of each copied constituent is a value-level statement and is not decided. One defect found by r2 (single-pass selection) was repaired in /repo.',
 },
 'C08': {
  'technique': 'field-coverage and both-sides rules over the resolved call graph; effect summary of the token-replacement loop (span, offset accumulation, guards); table extraction of the token filter; iteration-direction rules',
  'text': 'Decides the structural conditions for "all and only the mentions": every name-bearing text member is translated, formal text through a lexer over an unmodified copy with whole-token replacement at [token start + accumulated offset, + old length) and the offset accumulated once per replacement, '
          'under a filter that accepts exactly the three global identifier kinds; references are rewritten last-to-first from a scanner that finds adjacent references; every RSCore entry point rewrites formal part and texts, and renaming with substitution translates the whole storage on both sides.',
  'note': '"Same schema up to renaming" (dependency structure, statuses, typifications) and the UTF-8 byte/code-point arithmetic of the iterator are not decided. Whole-identifier matching relies on the MATH lexer DFA (longest match), decided under C05.',
 },
 'C12': {
  'technique': 'guard-dominance (refusal purity), mod-set of the const admissibility test, presence/orientation of the precheck guards, data-flow rules for translation bookkeeping and rewrite-before-erase order',
  'text': 'Decides: an inadmissible equation table or an incorrectly defined synthesis is refused before any state change; the admissibility test is const and writes only scratch; the prechecks include transitive dependence in the formal and the term graph with the right orientation; '
          'every equated pair and every erased duplicate is recorded, the duplicate translation is composed with the equation translation, both operand translations receive it; mentions are rewritten for every constituent on both sides before the equated constituents are erased; '
          'merging records and translates every copied constituent unconditionally.',
  'note': 'Correctness and type preservation of the resulting schema, and totality of the translations as data, are value-level and not decided. EntityTranslation::SuperposeWith/SubstituteValues themselves are trusted (header-only helpers).',
 },
 'C02': {
  'technique': 'tree-grammar extraction (LALR tables composed with the interpreted semantic actions, witness fixpoint over productions x root kinds) + visitor child-access bounds check under dominating guards, '
               'dispatch exhaustiveness, variant-tag dataflow for unchecked std::get, accessor-guard dominance rule, loud-refusal fixpoint for the evaluator',
  'text': 'Decides the structural obligations between checker and evaluator: every child access of the six syntax-tree visitors is within the node for every node kind and arity the parser can build; '
          'every unchecked std::get<Typification> in the checker reads a typification (a logical global used as an operand made 11 rules throw: fixed); structure accessors are guarded; evaluator refusals log a specific error.',
  'note': 'NOT decided: that each structure the evaluator dereferences (tuple arity, set-ness) is implied by the typing rule that accepted the expression, nor that the value has the structure of the reported type - these need the typing rules as mathematics.',
 },
 'C04': {
  'technique': 'finite-state evaluation of RSParser::Parse / yylex / ParserState::OnError extracted from the AST; loud-refusal fixpoint over parser actions, parser helpers and auditors; '
               'tree-grammar child-access bounds for all visitors; guard-dominance audit of every throwing accessor reachable from the analysis entry points (with call-graph reachability, size-interval facts, '
               'callee postcondition summaries, class-invariant and contract-accessor checks); jam-freedom of both scanners on the extracted DFA; who-may-share-the-reporter rule for nested analysers',
  'text': 'Decides: Parse succeeds iff the grammar accepted and no critical error was counted, and never fails silently; every refusal of parser, helpers and auditors logs an error; no visitor leaves its node; '
          'every std::get / optional::value / at / stoi / substr in the analysis code is guarded, caught, or covered by a named invariant; no byte sequence can jam a scanner and unknown bytes are reported; '
          'errors of a nested analysis of another text never enter the input\'s log.',
  'note': 'Adversarial nesting: r9 DEPTH-BOUNDED decides that the only way to the syntax tree leads through a gate that (interpreted on chains) refuses depth 4096 with a critical error while accepting ordinary and wide trees, and that the raw nodes are released iteratively (audit finding repaired: stack overflow from about 14000 levels); the same gate refuses a node with more children (or a token with more indices) than the 16-bit counter holds with room for the one-based component loops, does not count bracket nodes (which the generators add), and the evaluator runs only behind a test of the normalised tree (inlining multiplies nesting); four more audit findings repaired. It does NOT decide that the stack suffices for the bound. '
          'r2 also covers the Interpreter::Evaluate facade (silent refusal of the empty expression: repaired). NOT decided: resource bounds of the evaluator (set operations on lazily stored power sets enumerate them without a limit: open audit finding), behaviour of the JSON library; the throwing sites that rest on invariants confirmed by reading are listed one by one in rules/C04.py, the lock-step stacks and the last-field read of ExtractMorpho are decided structurally / by interpretation.',
 },
 'C03': {
  'technique': 'whole-program "loud refusal" fixpoint over the auditors\' CFGs (every refusing return is dominated by an error report or is the propagation of a loud callee), '
               'error-position provenance rule, scope pairing path rule, finite-domain evaluation of the value/property rules, of the bound-variable scope functions and of the type algebra '
               '(Merge / AreCompatible / CompareTemplated) extracted from the source against an order-theoretic reference, CstType predicate tables',
  'text': 'Decides: a rejected expression always carries an error (three silent rejections found and fixed); reported positions derive from the node being checked; scopes are closed on every success path and declaration flags '
          'change only through RAII guards; each ValueAuditor rule implements the value/property table on every operand-class vector; AddLocalVariable/StartScope/EndScope/GetLocalTypification follow the scope discipline on every variable state; '
          'Merge is the least upper bound of the specificity order (any-type below everything, integers below constant sets), AreCompatible its existence, and CompareTemplated binds each radical to the least upper bound of its arguments '
          'over a universe of 49 typifications; the constituent-kind predicates and CheckConstituenta constraints.',
  'note': 'The per-construct typing rules (ViDecart ... ViRecursion) are not compared with an independent statement of the RSLang type system: principal types of whole expressions are NOT decided. The type algebra is decided on a bounded universe (depth <= 2, arity <= 3).',
 },
 'C19': {
  'technique': 'CO-UPDATE and guard-before-mutation path rules, who-may-write inventory for the hash / outdated flags, call-chain + guard rule for the outdated propagation, order rule for the execution pipeline',
  'text': 'Decides: a pictogram enters and leaves all its tables together; operations are created only for two distinct existing operands recorded as parents, only leaves can be erased, refusals precede any change; '
          'a change of a source\'s core hash reaches OnCoreChange (unless notifications are suspended), which marks every child operation with a stored result outdated; coreHash and outdated have only the listed writers; '
          'StatusOf reports done only for an unbroken, up-to-date operation with a stored result; Execute runs its stages as successive refusing guards, prepares parents, and a stored result clears the flags and updates every child.',
  'note': 'Equality of an executed result with a fresh synthesis of the parents and the carrying-over of user additions (RSAggregator) are not decided. Acyclicity of documents loaded through LoadParent is NOT claimed: the loader only rejects direct 2-cycles.',
 },
}

_PENDING = 'rule module not yet implemented in this round; see DESIGN.md section 4 for the clauses planned'
NOT_APPLICABLE = {p: _PENDING for p in ['C%02d' % i for i in range(1, 21)] if p not in CHECKS}


# ---- as-built refresh (rounds 2 and 3): evaluated rules added on top of the structural ones. Each entry replaces the note and extends technique/text.
E4 = 'finite-domain interpretation of the library source (engine/evalmini.py over the typed AST; nothing of /repo is compiled or run)'
_AS_BUILT = {
 'C01': ('; ' + E4 + ' of the whole StructuredData library, of Normalizer + SyntaxTree::Node editing against reference semantics, and of the arithmetic visitor at the 32-bit limits',
         ' As built it also decides: r2/r5 the set operations and the lazy/enumerated equality the evaluator delegates to (shared with C15 r6); r7/r8 recursion and filter semantics; r10 NORMALISE-MEANING - Normalizer::Normalize interpreted on trees with tuple/enumerated binders, re-used names, imperative blocks, recursions and inlined term-functions: the normalised tree, evaluated by reference semantics with one slot per name, has the value of the tree as written; arith:range - +,-,* give the exact result or a reported failure.',
         'Value of arbitrary nested programs beyond the evaluated families is not decided. Oracles: set theory / propositional logic in rules/C01.py (_RefEval, operator tables) and rules/C15.py (_den). Seven normaliser defects, the int32 overflow and the lazy-cache dangling reference found this way were repaired (known_findings.json).'),
 'C02': ('; the normaliser interpreted from source (shared C01 r10), typing rules evaluated over a type universe (shared C03 r8/r9)',
         ' As built: r8 is the evaluated normaliser rule (no variable of the evaluated tree unbound or captured), r9 the evaluated typing rules incl. ill-typed-operand scenarios, r10 declaration-variable reads.',
         'NOT decided: that every structure the evaluator dereferences is implied by the accepting typing rule for whole expressions (decided per construct on a bounded type universe only). Known findings (3): evaluator refuses silently for declarations / anonymous function definitions (unknownError).'),
 'C03': ('; ' + E4 + ' of each Vi* typing rule over all operand-type vectors of a bounded universe against reference rules, including vectors with an ill-typed operand; scope discipline and recursion typing evaluated',
         ' As built: r4 declared arguments (the argument visitors and scope functions interpreted on argument lists whose domains open scopes of their own), r6 value-class table, r7 scope discipline, r8 type algebra (lub, template instantiation incl. any-typed arguments), r5 the constituent-kind constraints as CheckConstituenta interpreted on every (kind, definition text, outcome of the expression check) - a definition the parser cannot see is no definition, r9 typing rules of 17 constructs incl. the tuple binder (every operand is visited on every path; the any type is merged, never looked up; index 0 is valid for no tuple), recursion typing against the sound rule (least type covering initial value and step, fixed point required).',
         'Principal types of whole expressions are decided per construct on a bounded universe (depth <= 2, arity <= 3), not for arbitrary nesting. Five audit findings (filter parameters skipped, recursion typed by its step, template parameters left un-instantiated by an any-typed argument, declared arguments read through stale positions) were decided by r4/r8/r9 and repaired. A second audit added four (blank definition of a derived constituent typed as a base set; tuple binder, arithmetic and ordering refusing the any type; index and parameter-shape checks skipped for the any type): the reference tables of r9, which had frozen the old treatment of the any type, were corrected first; all repaired.'),
 'C05': ('; ' + E4 + ' of the lexer base (token data) for numbers',
         ' As built: r6 ConvertTo, r7 LITERALS-REPRESENTABLE (shared C06 r9): a literal / index the token data cannot hold is refused, never wrapped into a number that prints differently.',
         'The family is finite (quick: witness operands; thorough: all 13233 tree-grammar sentences). r8 IDENTIFIER-CLOSURE decides that every identifier the MATH lexer accepts prints to one ASCII identifier of the same kind - tried for every Greek pre-image of every ASCII keyword, indexed ones (pr<n>, Pr<n>, Fi<n>) included (three audit findings repaired). The width and bracket clauses of the round trip (a node wider than the child counter, a printed text deeper than the bound because of generated brackets) are decided by C04 r9. Not decided: ConvertTo applied twice (arguable).'),
 'C06': ('; ' + E4 + ' of LexerBase::Stream/lex/MakeToken/ParseData and TokenData::FromIndexSequence with the scanner verdict supplied',
         ' As built: r7 lexer reset (shared C18), r8 FindMinimalNode evaluated on trees, r9 TOKEN-DATA: an integer literal or index list carries exactly the numbers written or the token is refused (found the int32/int16 wrap, repaired).',
         'Trusts bison 3.8.2 for the sync comparison only. Does not decide that RE/flex reports columns in code points, nor sentences longer than the corpus shapes.'),
 'C08': ('; TRANSLATE-ONCE call-graph rule with slots filled from the repository; MergeWith interpreted on schemas whose texts are mention sequences',
         ' As built: r6 byte vs code-point units, r7 refresh + evaluated MergeWith (every mention renamed exactly once by the complete map), r8 TRANSLATE-ONCE (single-item inserters already rename the own alias; a later complete translation requires every text stored again from the source).',
         '"Same schema up to renaming" as data is not decided. r9 WHOLE-IDENTIFIER (no substring search for names) and r10 INHERITED-TEXTS (sibling rule of the aggregator) decide two further audit findings (repaired). r11 FREE-TEXT-UNMARKED (an error-marking translator never has the last word on a convention) and r12 RAW-TEXT-MINIMAL (ManagedText::TranslateRaw interpreted: only the name bytes of a reference change) decide two more (repaired). Not decided: group InsertCopy may generate a name that a definition mentions as unresolved (excluded by the proviso of the property).'),
 'C09': ('; SELF-REFERENCE rule over records (member closures / own-member addresses vs memberwise copy and move); NewUID evaluated',
         ' As built: r6 generator evaluation, r7 views, r8 SELF-REFERENCE: an object whose member refers back to the object is never copied or moved memberwise (found RSCore::cstList bound to the source after a copy, repaired).',
         'Does not decide list order after arbitrary MoveBefore sequences beyond what the priority table implies.'),
 'C12': ('; MergeWith interpreted on small schemas (mention sequences); TRANSLATE-ONCE call-graph rule; admissible-table evaluation',
         ' As built: r5 is the evaluated merge (every constituent copied and recorded, every mention renamed exactly once), r6 admissible table, r7 TRANSLATE-ONCE (shared C08 r8), r8 TRANSLATION-CLOSED (duplicate elimination interpreted on schemas with chains of duplicates: every erased constituent is mapped to a survivor).',
         'Correctness and type preservation of the resulting schema are value-level and not decided. r9 NO-LOOP-BY-EQUATION (precheck interpreted over the real graph code, for the dependency graph and for the term references under each term mode) and r10 ADMISSIBILITY-TOTAL (optional reads and the partial accessors of a typification guarded) decide further audit findings (repaired), r11 HANDOVER-RECREATED decides the second Execute() of a synthesis (repaired), r5 also requires that no generated name gives a dangling mention a meaning (repaired for definitions). Not decided: termination of the rewriting loop of the typification comparison; capture of a dangling *text reference* by a generated name.'),
 'C13': ('; graph closures of the interpreted CGraph (shared C14 r8); admissibility of a selection evaluated over all kinds',
         ' As built: r6 uses the evaluated ExpandInputs/ExpandOutputs/InputsFor/Sort, r7 selection admissibility (no exemption by kind: a base set that carries a definition has inputs; finding repaired), r8 RENUMBER-FAITHFUL (ResetAliases interpreted on schemas with gaps: every mention of definitions, conventions, terms and text definitions keeps its referent, a dangling one stays dangling; two findings repaired).',
         'Preservation of correctness status and typification of each copied constituent is value-level and not decided. r8 RENUMBER-FAITHFUL (ResetAliases interpreted on schemas with gaps) decides the renumbering capture (repaired). Not decided: a base set with a definition bypasses the closure test (arguable). The stale-status finding (a loop created by an edit stays VERIFIED) is decided by C07 r6 and repaired.'),
 'C14': ('; ' + E4 + ' of all of CGraph on every graph over three items, named shapes on 4-6 items, erase/re-add/replace histories and every single further update, both visiting orders of unordered sets, against the mathematical graph',
         ' As built: r8 GRAPH-EVALUATED decides exactness of every query as data on the bounded family (membership, edges, inputs, counts, reachability incl. the diagonal, cycles, cycle groups = SCCs containing a cycle, topological order validity, closures, Sort); r1-r5, r7 recognise today\'s algorithm forms for graphs of any size and defer to r8 when the form is different but every evaluated answer is right.',
         'Exactness beyond the bounded family rests on the structural rules (only when today\'s forms are recognised). One finding (IsReachableFrom(x,x) on a longer cycle) repaired.'),
 'C15': ('; ' + E4 + ' of the entire StructuredData library (engine/models/sdmodel.py: comparison, std::set order through the interpreted operator<, lazy product / power-set iterators, factories, set operations) on mixed-representation families against set theory; reference-origin analysis for accessors',
         ' As built: r6 ALGEBRA-EVALUATED (equality, order incl. transitivity, iteration once each, cardinality incl. saturation arithmetic, membership, all set operations, nesting, copies, 32-bit extremes, signed-overflow detection), r7 REFERENCE-STABILITY (a public const accessor never returns a reference into a container a const member can clear). r2/r3/r5 recognise today\'s forms and defer to r6 otherwise.',
         'Copy-on-write itself (use_count gate) is decided structurally (r1); the evaluation answers use_count() as shared. Two findings repaired: asymmetric lazy iterator equality (IsSubsetOrEq wrong on lazy sets), references into the evictable shared cache.'),
 'C16': ('; packer and unpacker interpreted from source on a family of typifications and values, also with the reserved count scaled into the evaluated range',
         ' As built: r3 ROUND-TRIP evaluated (sets of sets, tuples with sets, negatives, empty sets at every level); the family is evaluated again with SDCompact::unknownCount scaled to 2 and 3 because that constant lies inside the range of real cardinalities (found: a set of exactly that size did not unpack; repaired).',
         'Hostile tables are covered by the structural guards (r2) only. r4 COMPATIBLE decides CheckCompatible on heterogeneous sets (audit finding repaired).'),
 'C17': ('; ' + E4 + ' of Reference::ExtractAll (with the UTF-8 iterator and Substr), Reference::Parse, OutputRefs and ResolveAll on bounded text families; STORED-VALID who-may-store rule',
         ' As built: r7 write-back, r8 resolve-all, r9 SCAN-EVALUATED (exactly the well-formed @{...} occurrences whatever precedes them), r10 OFFSET-FAITHFUL (offset carried exactly or refused), r11 STORED-VALID (every writer of RefsManager::refs stores only references that passed IsValid()), r12 LEGACY-FIELDS (ExtractMorpho interpreted: only a numeric last field is the legacy index), r13 NESTED-FOUND (ExtractAll with the real Parse: a marker that encloses another marker is not a reference and the inner one is found), r14 RAW-CACHE-COUPLED (whoever assigns the raw text of a ManagedText rewrites its cached resolution on every path); the clause that resolving is a function of the raw texts, loops of term references included, is decided by C10 r11 (Thesaurus update interpreted). Nine findings repaired.',
         'An ill-formed marker, closed or not, is plain text: the well-formed occurrences inside it count (leftmost-outermost). Which field texts are well-formed is the parser\'s verdict (r1/r6/r10/r12), not re-derived by the scan rule.'),
 'C18': ('; SELF-REFERENCE rule over analyser records',
         ' As built: lexer reset generalised per entry point, statics reset on every path, r4 SELF-REFERENCE (the parser driver points at the parser\'s own state: found defaulted move operations, repaired).',
         'Assumes the analysers are deterministic functions of their members and arguments.'),
 'C19': ('; LoadParent interpreted over all 4-node graphs against "refuse iff duplicate or closes a loop"; scope-aware guard lifetime; null-guard rule for the stored translations',
         ' As built: r5 notifications suspended only around storing an operation\'s own result (finding repaired), r6 handle access + LoadParent evaluation (acyclicity of loaded documents: finding repaired), '
         'r7 SILENT-WRITE-ANNOUNCED (a result stored with notifications suspended marks the children outdated itself; finding repaired), r8 TRANSLATIONS-GUARD (every dereference of an operation\'s translations is dominated by a null test, and StatusOf reports done only with translations present; finding repaired), r9 CELL-FREE (a pictogram is put only into a cell computed as free or whose occupancy was examined on every path; finding repaired).',
         'Equality of an executed result with a fresh synthesis of the parents and the carrying-over of user additions (RSAggregator) are not decided.'),
 'C20': ('; ' + E4 + ' of Substr, TrimWhitespace, SplitBySymbol, IsInteger and Merge on all small strings / windows',
         ' As built: r5 Substr, r6 Trim, r7 Split / IsInteger evaluated on every string of a bounded family over 1-4 byte code points, Merge as a whole function.',
         'String functions are decided on bounded families (length <= 4 code points quick), not for unbounded strings. An independent audit (differential fuzzing) found no violation.'),
}
_AS_BUILT['C07'] = ('; AUDIT-ON-RESET-STATE dominance rule for the incremental path',
         ' As built: r5 graph update (shared C14), r6 AUDIT-ON-RESET-STATE - every Schema::ParseCst call is dominated by a bulk reset of the parse records of the edited constituent\'s dependants closure, as in the from-scratch analysis (found: a dependency loop created by an edit stayed VERIFIED; repaired).',
         'Frozen exception: Schema::SetDefinitionFor skips refresh only on the branch where FindExpr(new text) returns the constituent itself (identical syntax tree; token positions of the previous text are kept - an audit finding judged a deliberate optimisation). Equality of results with a fresh build as data is not decided.')
_AS_BUILT['C11'] = ('; PRUNE-AGAINST-NEW-TYPES order rule; STRUCTURE-GUARD dominance rule for E()/T()/B() in the model layer',
         ' As built: r9 value sources, r10 structure data is pruned after the schema change that alters typifications - also for an erasure (found: Erase pruned only before; repaired), r11 STRUCTURE-GUARD: every E()/T()/B() access in the model layer is dominated by a test of the structure of that very object (found: data and a changed typification walked in parallel; repaired).',
         'Does not decide that recalculated values are equal to fresh ones (value-level).')
_ROUND4 = {
 'C01': ' r8 also evaluates EvaluateFilterComplex (one parameter, arguments of several elements) against the projection definition.',
 'C03': ' r10 REPORT-FAITHFUL: the text in which a typification is reported (EchelonTuple/EchelonBool::ToString interpreted on every typification up to depth three) is the conventional notation, hence injective.',
 'C04': ' r6 OWN-LOG also reports errors of a nested analyser that are gathered in a local and then handed to the reporter of the caller.',
 'C05': ' r6 also requires that ConvertTo owns no mutable static (the evaluation starts every call from fresh locals).',
 'C07': ' r3 also inventories the sorting calls: none is ordered by graph reachability (a partial order is not a strict weak ordering).',
 'C08': ' r2 all-tokens: TranslateRS interpreted over scripted token streams with every token kind between two occurrences of a name (only END ends the translation); r14 also decides that RSConcept::Translate is applied on every path of Schema::Translate and to every constituent in Schema::TranslateAll.',
 'C09': ' r10 RENUMBER-FAITHFUL (shared C13 r8), r11 LIST-GROUPED: CstList::MoveBefore and Insert interpreted on every grouped list of up to four constituents - an accepted move or an insertion leaves a grouped permutation, a refusal leaves the list as it was; by induction every history of moves and insertions keeps the grouping.',
 'C11': ' r4 evaluates the decision table of ResetDependants under both values of every query about the dependant that is outside its vocabulary (free runtime conditions).',
 'C12': ' r13 COPIES-ANALYSED (shared C07 r2): an insertion that uses the deferred loader reaches UpdateState on every path.',
 'C13': ' r9 MAXPART-EVALUATED: GetAllCstMaxPart with CheckCst interpreted on every schema of up to four constituents in every list order and every selection against the least fixpoint.',
 'C17': ' r17 ERASE-ALIGNED: RefsManager::EraseIn interpreted on every layout of up to three references and every range: a refusal changes nothing, an accepted erasure removes exactly the references inside and shifts those behind.',
 'C19': ' r11 HASH-ANNOUNCED: the stored hashes of a handle are refreshed only by a function that read the previous core hash and reaches OnCoreChange afterwards; no direct assignment outside the handle.',
 'C20': ' r6 evaluates TrimWhitespace with plain char signed, as on the platforms the library is built for.',
}
_ROUND5 = {
 'C01': ' r7 hands the recursion values out as sets (two of the same size), so a termination test that looks at anything but equality is evaluated too.',
 'C12': ' r14 TOKENS (shared C08 r2): TranslateRS interpreted on scripted token streams with three occurrences of a name and a replacement of another length.',
 'C17': ' r18 TEXT-SLICES (shared C20 r5): ccl::Substr, through which write-back copies every plain segment, never cuts inside a multi-byte character.',
 'C19': ' r1 also orders OSSchema::Erase: an eraser that acts only while the pictogram is stored (tests Contains) runs before storage.erase.',
 'C10': ' r12 also decides that no invalidation of other values (ResetDependants, ResetFor, PruneStructure) is reachable from a loader of model values.',
}
for _k, _t in _ROUND5.items():
    _ROUND4[_k] = _ROUND4.get(_k, '') + _t
for _k, _t in _ROUND4.items():
    if _k in _AS_BUILT:
        _AS_BUILT[_k] = (_AS_BUILT[_k][0], _AS_BUILT[_k][1] + _t, _AS_BUILT[_k][2])
    else:
        CHECKS[_k]['text'] += _t
_AS_BUILT['C09'] = (_AS_BUILT['C09'][0], _AS_BUILT['C09'][1], _AS_BUILT['C09'][2].replace('Does not decide list order after arbitrary MoveBefore sequences beyond what the priority table implies.', 'List order under MoveBefore / Insert is decided by r11 on lists of up to four constituents (the functions look at most at two neighbours).'))
for _k, (_tech, _text, _note) in _AS_BUILT.items():
    CHECKS[_k]['technique'] += _tech
    CHECKS[_k]['text'] += _text
    CHECKS[_k]['note'] = _note
NOTES += (' Round 3: whole components are interpreted from their source on bounded families (StructuredData, CGraph, Normalizer with SyntaxTree editing, MergeWith, lexer token data, reference scanning); '
          'shape recognisers defer to them instead of alarming on an unrecognised form. 91 fix: commits in /repo repair genuine defects decided by the checks (known_findings.json, 132 entries with status fixed); 3 remain listed as known (C02 r6); the audit findings no check decides are listed in DESIGN.md 9.7 and not claimed.')
