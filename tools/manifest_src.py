NOTES = ('Static analysis only: every verdict is computed from the current sources under /repo (typed clang AST, CFG, tables in the source). '
         'Exit 0 pass / 1 VIOLATION / 2 ANALYSIS-BROKEN. Properties not yet claimed are listed under not_applicable with the reason; '
         'the list shrinks as rule modules land (DESIGN.md section 7).')

CHECKS = {
 'C11': {
  'technique': 'static MUST-CALL / ORDER / CO-UPDATE path rules on the CFG + finite-domain decision table of the reset loop',
  'text': 'Decides the cache-invalidation discipline that the behavioural property needs on every path of every model mutator: each public '
          'mutator that changes a value source reaches RSModel::ResetDependants before a success exit (before the edge-destroying call for erasure), '
          'resets the target\'s own value and flag, the reset walks the transitive outputs and skips only base sets, reset helpers clear every '
          'per-constituent container, RecalculateAll clears first and iterates topologically. Holds for all histories because it holds for all paths of the code.',
  'note': 'Does not decide that recalculated values are equal to fresh ones (value-level). Trusts clang 14 AST/CFG, the call resolution of the extractor and the exemption table in rules/C11.py (insert/load paths).',
 },
}

_PENDING = 'rule module not yet implemented in this round; see DESIGN.md section 4 for the clauses planned'
NOT_APPLICABLE = {p: _PENDING for p in ['C%02d' % i for i in range(1, 21)] if p not in CHECKS}
